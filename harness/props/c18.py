"""C18 — the scheduling frontier offers exactly the work that may be decided now.

Also the shared library of the three TaskGraph-level checks (C18, C07, C06_closure): generators of
(DAG x per-task state vector x operation) cases, Gallina rendering, the correspondence stream
S-taskgraph against the REAL TaskGraph / Workload / Task classes, and the monitors.
"""
import itertools

import core
from core import gz, glist, gbool, gopt

FILES = ["workload/tasks.py", "workload/graph.py", "workload/workload.py", "workload/jobs.py",
         "workload/strategy.py", "workload/__init__.py"]
TRUSTED = [
    "translator fragments Task (TaskState, Task.cancel, is_complete) and TaskGraph (is_ready_to_run, RELEASABLE_TASK_STATES, "
    "Task.remaining_time, the guards of TaskGraph.cancel / notify_task_completion / get_releasable_tasks, and of "
    "get_schedulable_tasks: per-state estimate, child skip/update tests, horizon filter, preemption filter)",
    "hand-modelled and tied by the S-taskgraph stream only: the loops, dict / deque handling, Graph.topological_sort and "
    "depth_first, resolve_conditional, Workload.get_schedulable_tasks, the float tests on probabilities (probabilities are "
    "n/16 in the stream, exactly representable, so `p <= epsilon` is `n <= 0` and `abs(sum - 1.0) > epsilon` is `sum <> 16`)",
    "random.choices / random.random / random.choice are oracles: the index they return is an input of the model; the contract "
    "`random.choices never returns an element of weight 0` is sampled on CPython (stream S-choices), not proved",
    "EventTime arithmetic is integer arithmetic on microseconds (C16)",
    "worker_pools.get_placed_tasks() is an input list (the worker pools are C04's model)",
]
STN = ["VIRTUAL", "RELEASED", "SCHEDULED", "RUNNING", "PREEMPTED", "EVICTED", "COMPLETED", "CANCELLED"]
POL = ["WORST_CASE", "BEST_CASE", "MAXIMUM", "RANDOM", "ALL"]
DEN = 16
HEADER = "From Verif Require Import Gen.Src_Task Gen.Src_TaskGraph Model.TaskGraph."


# --------------------------------------------------------------------------
# graphs
# --------------------------------------------------------------------------
def key_order(adj):
    """insertion order of Graph._graph when built from the mapping `adj` (graph.py: add_node / add_child)"""
    order = []
    for n, cs in adj:
        if n not in order:
            order.append(n)
        for c in cs:
            if c not in order:
                order.append(c)
    return order


def canon_adj(adj):
    """the _graph dict (key order, children lists) that results from the mapping"""
    ch = {}
    for n, cs in adj:
        ch.setdefault(n, [])
        for c in cs:
            ch[n].append(c)
            ch.setdefault(c, [])
    return [[n, ch[n]] for n in key_order(adj)]


def parents_of(adj):
    par = {n: [] for n, _ in canon_adj(adj)}
    for n, cs in canon_adj(adj):
        for c in cs:
            par[c].append(n)
    return par


def rand_dag(rng, n, p_edge):
    """random DAG on n distinct ids, random key order, random children order"""
    ids = rng.sample(range(1, 10), n)
    topo = ids[:]
    rng.shuffle(topo)
    ch = {i: [] for i in ids}
    for a in range(n):
        for b in range(a + 1, n):
            if rng.random() < p_edge:
                ch[topo[a]].append(topo[b])
    for i in ids:
        rng.shuffle(ch[i])
    keys = ids[:]
    rng.shuffle(keys)
    if rng.random() < 0.3:      # leaves that only appear as children
        keys = [k for k in keys if ch[k] or rng.random() < 0.5] or keys
    adj = [[k, ch[k]] for k in keys]
    missing = [i for i in ids if i not in key_order(adj)]
    adj += [[i, []] for i in missing]
    return adj


def cond_dag(rng):
    """structured graph: [pre ->] C -> branches (chains) -> T [-> post], possibly nested / with a bypass edge"""
    nxt = [1]

    def new():
        nxt[0] += 1
        return nxt[0] - 1
    ch = {}
    flags = {}

    def chain(length):
        ns = [new() for _ in range(length)]
        for a, b in zip(ns, ns[1:]):
            ch.setdefault(a, []).append(b)
        for x in ns:
            ch.setdefault(x, [])
        return ns

    def block(depth):
        c, t = new(), new()
        ch[c], ch[t] = [], []
        flags[c] = "cond"
        flags[t] = "term"
        for _ in range(rng.choice([2, 2, 3])):
            r = rng.random()
            if r < 0.15:
                ch[c].append(t)           # empty branch: the conditional points at the join
            elif r < 0.3 and depth == 0 and nxt[0] < 6:
                c2, t2 = block(1)
                ch[c].append(c2)
                ch[t2].append(t)
            else:
                ns = chain(rng.choice([1, 1, 2]))
                ch[c].append(ns[0])
                ch[ns[-1]].append(t)
        ch[c] = list(dict.fromkeys(ch[c]))
        return c, t
    c, t = block(0)
    if rng.random() < 0.5:
        p = new()
        ch[p] = [c]
    if rng.random() < 0.6:
        q = new()
        ch[q] = []
        ch[t].append(q)
    if rng.random() < 0.2:      # a second, independent parent of a branch node or of the join
        s = new()
        ch[s] = [rng.choice([x for x in ch if x != s and flags.get(x) != "cond"])]
    keys = list(ch)
    if rng.random() < 0.5:
        rng.shuffle(keys)
    return [[k, ch[k]] for k in keys], flags


def gen_tasks(rng, adj, flags=None, mode="any"):
    """per-task fields: [state, release, deadline, raw_remaining, prob, terminal, conditional, estart, completion, runtimes]"""
    nodes = key_order(adj)
    par = parents_of(adj)
    ch = dict((n, cs) for n, cs in canon_adj(adj))
    tasks = {}
    for n in nodes:
        if flags is not None:
            term = flags.get(n) == "term"
            cond = flags.get(n) == "cond"
            if rng.random() < 0.05:
                term = not term
        else:
            term = rng.random() < 0.25
            cond = rng.random() < 0.25
        if mode == "fresh":
            st = 0
        elif mode == "cancelable":
            st = rng.choice([0, 0, 0, 1, 2, 7])
        else:
            st = rng.choice([0, 0, 0, 1, 1, 2, 3, 4, 5, 6, 6, 7])
        rts = [rng.choice([0, 1, 2, 3, 5, 8]) if rng.random() < 0.1 else rng.choice([1, 2, 3, 5, 8])
               for _ in range(rng.choice([1, 1, 2, 3]))]
        release = rng.choice([-1, -1, 0, 3, 7, 12, 20]) if par[n] else rng.choice([0, 0, 3, 7, 12, 20])
        raw = rng.choice([0, 1, 2, 4, 9]) if st in (2, 3, 4, 5) else rng.choice([0, 3])
        if st == 6 or st == 7:
            raw = 0
        estart = rng.choice([0, 2, 5, 9, 15, 25]) if (st == 2 or rng.random() < 0.1) else None
        completion = rng.choice([0, 1, 4, 8, 15]) if st in (5, 6) else -1
        tasks[n] = [st + 1, release, 100, raw, DEN, term, cond, estart, completion, rts]
    # probabilities of the children of conditional nodes
    for n in nodes:
        if tasks[n][6] and ch[n]:
            k = len(ch[n])
            r = rng.random()
            if r < 0.6:
                cuts = sorted(rng.randint(0, DEN) for _ in range(k - 1))
                ps = [b - a for a, b in zip([0] + cuts, cuts + [DEN])]
            elif r < 0.75:
                ps = [0] * k
                ps[rng.randrange(k)] = DEN        # resolved at submission
            elif r < 0.85:
                ps = [0] * k
            else:
                ps = [rng.choice([0, 4, 8, 16]) for _ in range(k)]
            for c, p in zip(ch[n], ps):
                tasks[c][4] = p
    for n in nodes:
        if tasks[n][0] == 8:
            tasks[n][4] = 0
    return tasks


def g_task(f):
    st, release, deadline, raw, prob, term, cond, estart, completion, rts = f
    return "(mk_ttask TS_%s %s %s %s %s %s %s %s %s %s)" % (
        STN[st - 1], gz(release), gz(deadline), gz(raw), gz(completion), gz(prob), gbool(term), gbool(cond),
        gz(-1 if estart is None else estart), glist([gz(r) for r in rts]))


def g_graph(adj, tasks):
    ca = canon_adj(adj)
    return "(mkTG %s %s %s)" % (
        glist(["(%s, %s)" % (gz(n), glist([gz(c) for c in cs])) for n, cs in ca]),
        glist(["(%s, %s)" % (gz(n), g_task(tasks[n])) for n, _ in ca]), gz(DEN))


def g_opts(o):
    return "(mkSO %s %s %s %s %s %s %s)" % (
        gz(o["time"]), gz(o["lookahead"]), gbool(o["preemption"]), gbool(o["retract"]),
        gopt(o["placed"], lambda l: glist([gz(x) for x in l])), POL[o["policy"]], gbool(o["release_tg"]))


def g_op(op):
    k = op[0]
    if k == "cancel":
        return "(OCancel %s %s)" % (gz(op[1]), gz(op[2]))
    if k == "notify":
        return "(ONotify %s %s %s)" % (gz(op[1]), gz(op[2]), gz(op[3]))
    if k == "releasable":
        return "OReleasable"
    if k == "sched":
        return "(OSched %s %s)" % (g_opts(op[1]), glist([gz(d) for d in op[2]]))
    if k == "ready":
        return "(OReady %s)" % gz(op[1])
    if k == "flags":
        return "OFlags"
    if k == "topo":
        return "OTopo"
    if k == "dfs":
        return "(ODfs %s)" % gz(op[1])
    if k == "resolve":
        return "(OResolve %s %s %s)" % (gz(op[1]), POL[op[2]], glist([gz(d) for d in op[3]]))
    raise ValueError(k)


def spec_of(adj, tasks, late=None):
    d = {"adj": adj, "tasks": {str(n): f for n, f in tasks.items()}, "den": DEN}
    if late:
        d["late"] = late
    return d


def late_edges(rng, adj, k=0):
    """edges of `adj` that the adapter declares AFTER the TaskGraph was built and queried once (Graph.add_child called
    directly, the way the loaders wire graphs): the graph evolves while it is in use.  Only edges whose later addition
    reproduces exactly the structure of `adj` (same key order, same children and parent orders) are eligible, so the
    model — which knows only the final graph — is unaffected.  Returned in the order in which they are added back."""
    import random as _r
    r2 = _r.Random("%s/%d/%r" % (repr(rng.getstate()[1][:4]), k, adj))   # derived: `rng` itself is not advanced
    if r2.random() >= 0.3:
        return []
    cur = [[n, list(cs)] for n, cs in adj]
    removed = []
    for _ in range(r2.choice([1, 1, 2, 3])):
        par = parents_of(cur)
        cands = []
        for k, (n, cs) in enumerate(cur):
            if not cs:
                continue
            c = cs[-1]
            if par[c] and par[c][-1] == n and par[c].count(n) == 1:
                trial = [[m, list(x)] for m, x in cur]
                trial[k][1] = trial[k][1][:-1]
                if key_order(trial) == key_order(cur):
                    cands.append((k, n, c))
        if not cands:
            break
        k, n, c = r2.choice(cands)
        cur[k][1] = cur[k][1][:-1]
        removed.append([n, c])
    return list(reversed(removed))


def rand_opts(rng, nodes, tasks):
    placed = None
    if rng.random() < 0.15:
        cand = [n for n in nodes if tasks[n][0] in (3, 4)]
        placed = [n for n in cand if rng.random() < 0.7]
    return {"time": rng.choice([0, 3, 5, 8, 12]), "lookahead": rng.choice([0, 0, 1, 4, 10, 40]),
            "preemption": rng.random() < 0.3, "retract": rng.random() < 0.4, "placed": placed,
            "policy": rng.choice([0, 1, 2, 3, 4, 4]), "release_tg": rng.random() < 0.3}


def rand_case(rng, kinds):
    """one (graph, operation) case; `kinds` = operation kinds to draw from"""
    if rng.random() < 0.5:
        adj, flags = cond_dag(rng)
    else:
        adj, flags = rand_dag(rng, rng.choice([1, 2, 3, 4, 4, 5, 5, 6]), rng.choice([0.3, 0.5, 0.7])), None
    k = rng.choice(kinds)
    mode = "any"
    if k in ("cancel", "notify") and rng.random() < 0.6:
        mode = rng.choice(["fresh", "cancelable"])
    tasks = gen_tasks(rng, adj, flags, mode)
    nodes = key_order(adj)
    ch = dict((n, cs) for n, cs in canon_adj(adj))
    if k == "cancel":
        op = ["cancel", rng.choice(nodes), rng.choice([0, 7])]
    elif k == "notify":
        cands = [n for n in nodes if ch[n]] or nodes
        conds = [n for n in cands if tasks[n][6]]
        t = rng.choice(conds) if conds and rng.random() < 0.6 else rng.choice(cands)
        if rng.random() < 0.85:
            tasks[t][0] = rng.choice([7, 7, 6])
            tasks[t][3] = 0
            tasks[t][8] = rng.choice([1, 4, 8])
            if mode != "any":       # the parents of a completed task are complete in a run
                pass
        if tasks[t][6] and len(ch[t]) >= 2 and rng.random() < 0.3:
            c = rng.choice(ch[t])          # a child cancelled before the conditional completed
            tasks[c][0], tasks[c][3], tasks[c][4] = 8, 0, 0
        draw = rng.randrange(max(1, len(ch[t]))) if rng.random() < 0.95 else rng.choice([-1, len(ch[t])])
        op = ["notify", t, rng.choice([4, 9]), draw]
    elif k == "sched":
        op = ["sched", rand_opts(rng, nodes, tasks), [rng.randrange(3) for _ in range(12)]]
    elif k == "resolve":
        conds = [n for n in nodes if tasks[n][6]] or nodes
        op = ["resolve", rng.choice(conds), rng.randrange(5), [rng.randrange(3) for _ in range(3)]]
    elif k in ("ready", "dfs"):
        op = [k, rng.choice(nodes)]
    else:
        op = [k]
    return adj, tasks, op


def fix_draws(adj, tasks, op):
    """RANDOM draws are made valid indices where the code would index a list (the oracle's contract)"""
    return op


def run_correspondence(ctx, stream, triples, what):
    """triples: (adj, tasks, op).  Runs the real classes and the model; reports disagreements.
    Returns the implementation's results (None when the model could not be evaluated)."""
    lates = [late_edges(ctx.rng, a, k) for k, (a, t, op) in enumerate(triples)]
    st = ctx.cov["streams"].setdefault(stream, {"cases": 0, "disagreements": 0})
    st["cases_with_edges_declared_after_first_query"] = st.get("cases_with_edges_declared_after_first_query", 0) + sum(1 for l in lates if l)
    payload = {"cases": [{"graphs": [spec_of(a, t, l)], "op": op} for (a, t, op), l in zip(triples, lates)]}
    impl = core.run_impl("taskgraph.py", payload)
    for (a, t, op), order in zip(triples, impl["orders"]):
        if order != key_order(a):
            ctx.broken.append({"kind": "machinery", "name": "key-order",
                               "detail": "Graph._graph key order %s differs from the harness' %s for %s" % (order, key_order(a), a)})
            return impl["results"]
    cases = [("(%s, %s)" % (g_graph(a, t), g_op(op)), r, [a, t, op]) for (a, t, op), r in zip(triples, impl["results"])]
    try:
        mism = ctx.model_stream(stream, HEADER, "tgraph * tg_op", "tg_observe", cases)
    except core.ModelEvalError as e:
        ctx.broken.append({"kind": "correspondence", "name": stream, "detail": str(e)[-600:]})
        return impl["results"]
    for idx, mv in mism[:3]:
        a, t, op = triples[idx]
        ctx.violation("%s%d" % (stream.replace("-", "_"), idx),
                      {"stream": stream, "mapping": a, "tasks(state,release,deadline,raw_remaining,prob/16,terminal,conditional,"
                       "expected_start,completion,runtimes)": t, "operation": op,
                       "implementation": impl["results"][idx], "model": mv, "what": what})
    return impl["results"]


def count_nontrivial(triples):
    seen = set()
    n = 0
    for a, t, op in triples:
        k = repr((a, sorted(t.items()), op))
        if k in seen:
            continue
        seen.add(k)
        if len(t) >= 3 and any(cs for _, cs in a):
            n += 1
    return n


# --------------------------------------------------------------------------
def sane_case(rng):
    """a state as a run of a policy that does not plan ahead produces it at a scheduler invocation:
    a prefix of the DAG is COMPLETED (completion times in the past), the tasks whose parents are all complete
    are RELEASED / SCHEDULED (start in the future) / RUNNING (time left), everything else is VIRTUAL"""
    adj = rand_dag(rng, rng.choice([2, 3, 4, 5, 5, 6]), rng.choice([0.3, 0.5, 0.7]))
    tasks = gen_tasks(rng, adj, None, "fresh")
    nodes = key_order(adj)
    par = parents_of(adj)
    time = rng.choice([5, 8, 12])
    done = set()
    changed = True
    while changed:
        changed = False
        for n in nodes:
            if n not in done and all(p in done for p in par[n]) and rng.random() < 0.45:
                done.add(n)
                changed = True
    for n in nodes:
        f = tasks[n]
        f[5] = False
        f[6] = False
        f[9] = [r if r > 0 else 1 for r in f[9]]
        if n in done:
            f[0], f[3], f[8] = 7, 0, rng.choice([0, 2, time])
        elif all(p in done for p in par[n]):
            st = rng.choice([1, 2, 2, 3, 4, 5])
            f[0] = st
            f[1] = rng.choice([0, 3, time])
            if st == 3:
                f[3] = rng.choice([1, 4])
                f[7] = time + rng.choice([0, 1, 5]) if rng.random() < 0.8 else time - f[3] + 1
            elif st in (4, 5):
                f[3] = rng.choice([1, 2, 4])
    o = {"time": time, "lookahead": 0, "preemption": rng.random() < 0.3, "retract": False, "placed": None,
         "policy": 4, "release_tg": False}
    return adj, tasks, ["sched", o, []]


def mono_case(rng):
    """heads that are SCHEDULED for later (placed, not started), VIRTUAL successors whose estimated completion
    falls inside the horizon for some of the lookaheads, no retraction: the state in which the scheduler is
    re-invoked before a planned task starts"""
    adj = rand_dag(rng, rng.choice([2, 3, 3, 4, 5]), rng.choice([0.5, 0.7, 0.9]))
    tasks = gen_tasks(rng, adj, None, "fresh")
    par = parents_of(adj)
    time = rng.choice([0, 5, 100])
    for n, f in tasks.items():
        f[5] = rng.random() < 0.1
        f[6] = False
        f[9] = [rng.choice([1, 2, 3])]
        if not par[n]:
            r = rng.random()
            if r < 0.8:
                f[0], f[7], f[3] = 3, time + rng.choice([0, 2, 5, 400]), rng.choice([1, 2, 3])   # SCHEDULED for later
                f[1] = rng.choice([0, time])
            elif r < 0.9:
                f[0], f[1] = 2, time + rng.choice([3, 50])                                       # RELEASED, in the future
            else:
                f[0], f[1] = 1, time + 50                                                        # not yet released
        else:
            f[0], f[1] = 1, -1
    l1 = rng.choice([0, 3, 6, 10, 410])
    l2 = l1 + rng.choice([1, 5, 30, 400])
    base = {"time": time, "preemption": False, "retract": False, "placed": None, "policy": 4}
    return adj, tasks, [dict(base, lookahead=l, release_tg=r) for l, r in ((l1, False), (l1, True), (l2, False), (l2, True))]


def bigger(rng, o):
    o2 = dict(o)
    o2["lookahead"] = o["lookahead"] + rng.choice([0, 1, 3, 10, 40])
    o2["release_tg"] = o["release_tg"] or rng.random() < 0.5
    return o2


def py_no_plan_ahead_applies(adj, tasks, op):
    """Python twin of c18_no_plan_ahead_applies (used for the coverage count only)"""
    o = op[1]
    if o["lookahead"] != 0 or o["retract"] or o["release_tg"]:
        return False
    par = parents_of(adj)

    def complete(n):
        return tasks[n][0] in (6, 7)

    def remaining(n):
        f = tasks[n]
        return 0 if f[0] in (7, 8) else (f[3] if f[0] in (3, 4, 5, 6) else max(f[9]))
    for n, f in tasks.items():
        s = f[0]
        if max(f[9]) <= 0 or f[6]:
            return False
        if s in (4, 5) and remaining(n) <= 0:
            return False
        if s == 3 and not (o["time"] < (f[7] if f[7] is not None else -1) + remaining(n)):
            return False
        if s in (6, 7) and not f[8] <= o["time"]:
            return False
        if s == 1 and not all(complete(p) for p in par[n]):
            if not any(tasks[p][0] in (2, 3, 4, 5) or (tasks[p][0] == 1 and not all(complete(q) for q in par[p]))
                       for p in par[n]):
                return False
    return True


def py_frontier_check(adj, tasks, o, fr):
    for n, f in tasks.items():
        if f[0] == 2 and f[1] <= o["time"] + o["lookahead"] and n not in fr:
            return False
    for n in fr:
        s = tasks[n][0]
        if s in (7, 8) or (s == 3 and not (o["retract"] or o["preemption"])) or (s == 4 and not o["preemption"]):
            return False
    return True


def py_children_check(adj, tasks, t, rel):
    ch = dict((a, b) for a, b in canon_adj(adj))
    par = parents_of(adj)
    want = [c for c in ch[t] if tasks[c][0] != 8 and (tasks[c][5] or all(tasks[p][0] in (6, 7) for p in par[c]))]
    return sorted(rel) == sorted(want) and len(set(rel)) == len(rel)


def run(ctx):
    ctx.fingerprint(FILES)
    ctx.translate(["Task", "TaskGraph"])
    ctx.build("C18", deps=["Model/TaskGraph.v"])
    quick = ctx.tier == "quick"
    rng = ctx.rng
    n = 550 if quick else 6000
    kinds = ["sched", "sched", "sched", "releasable", "notify", "notify", "ready", "resolve", "topo", "dfs", "flags"]
    triples = [rand_case(rng, kinds) for _ in range(n)]
    triples += [sane_case(rng) for _ in range(n // 4)]
    # is_ready_to_run of the joins: parents in mixed states (complete / cancelled / still alive)
    for _ in range(25 if quick else 400):
        a, flags = cond_dag(rng)
        t = gen_tasks(rng, a, flags, "any")
        par = parents_of(a)
        for j in [x for x in key_order(a) if t[x][5] and par[x]]:
            t2 = {k2: list(v2) for k2, v2 in t.items()}
            t2[j][0] = rng.choice([3, 3, 5, 1])
            if t2[j][0] == 3:
                t2[j][7] = 5
            for p_ in par[j]:
                t2[p_][0] = rng.choice([7, 7, 8, 8, 6, 4, 2, 1])
                if t2[p_][0] == 8:
                    t2[p_][4] = 0
            triples.append((a, t2, ["ready", j]))
    # every switch combination x several lookaheads x policies on the same graph
    for _ in range(4 if quick else 60):
        a, t, _op = rand_case(rng, ["flags"])
        time = rng.choice([3, 8])
        draws = [rng.randrange(2) for _ in range(12)]
        for pre in (False, True):
            for ret in (False, True):
                for rtg in (False, True):
                    for la in (0, 4, 40):
                        for pol in (4, 0, 3):
                            triples.append((a, t, ["sched", {"time": time, "lookahead": la, "preemption": pre, "retract": ret,
                                                             "placed": None, "policy": pol, "release_tg": rtg}, draws]))
    # recorded witnesses of the refuted unrestricted forms: the model's answer must be the real code's answer
    import json
    import os
    wfile = os.path.join(core.ROOT, "corpus", "C18", "no_plan_ahead_witnesses.json")
    witnesses = json.load(open(wfile))["witnesses"] if os.path.exists(wfile) else []
    w_at = len(triples)
    for w in witnesses:
        triples.append((w["adj"], {int(k): v for k, v in w["tasks"].items()}, w["op"]))
    # monotonicity pairs: the same graph / draws with a larger lookahead and/or release_taskgraphs
    pairs = []
    for i in range(len(triples)):
        a, t, op = triples[i]
        if op[0] == "sched" and len(pairs) < (200 if quick else 1500):
            triples.append((a, t, ["sched", bigger(rng, op[1]), op[2]]))
            pairs.append((i, len(triples) - 1))
    # source-independent monotonicity: the REAL get_schedulable_tasks under (l1, off), (l1, on), (l2, off), (l2, on)
    # on states with SCHEDULED-for-later heads and VIRTUAL successors, identical draws
    quads = []
    for _ in range(60 if quick else 700):
        a, t, os_ = mono_case(rng)
        at = len(triples)
        for o in os_:
            triples.append((a, t, ["sched", o, []]))
        quads.append(at)
        for x, y in ((0, 1), (0, 2), (1, 3), (2, 3)):
            pairs.append((at + x, at + y))
    ctx.rules.append("S-taskgraph: (DAG x per-task state vector x operation) on 1-8 nodes: random DAGs with random key/children "
                     "order and structured conditional/join graphs (nested, empty branches, extra parents), all 8 task states, "
                     "run-like states (completed prefix, released / scheduled / running tasks below it), "
                     "operations get_schedulable_tasks under all switch combinations / lookaheads / times / 5 branch policies "
                     "(RANDOM fed with recorded draws) with and without worker-pool placed tasks, the same call again with a larger "
                     "lookahead / release_taskgraphs (and, on states whose heads are SCHEDULED for later with VIRTUAL successors, all four of "
                     "(lookahead l1 < l2) x (release_taskgraphs off / on); the offers must be nested: checked in Python on the "
                     "implementation's answers alone), get_releasable_tasks, notify_task_completion with each draw, is_ready_to_run, "
                     "resolve_conditional, topological_sort, depth_first, is_complete/is_cancelled; S-workload: "
                     "Workload.get_schedulable_tasks over 2-3 graphs; distinct = distinct (mapping, tasks, operation); "
                     "non-trivial = at least 3 tasks and one edge")
    ctx.cov["distinct_nontrivial"] += count_nontrivial(triples)
    dist = {}
    for _, _, op in triples:
        dist[op[0]] = dist.get(op[0], 0) + 1
    res = run_correspondence(ctx, "S-taskgraph", triples,
                             "the real TaskGraph operation and the model disagree (returned task list in order / states afterwards)")
    ctx.sample({"stream": "S-taskgraph", "mapping": triples[0][0], "op": triples[0][2], "impl": res[0]})
    for k, w in enumerate(witnesses):
        if res[w_at + k] != w["expect"]:
            ctx.cov.setdefault("notes", []).append("witness %s now answers %s (recorded %s)" % (w["name"], res[w_at + k], w["expect"]))

    # ---- S-fallback: a task scheduled ahead of its release, released while SCHEDULED, then unscheduled
    # (REAL Task.schedule / release / unschedule calls): it is VIRTUAL again, and must still be offered
    fb = []
    while len(fb) < (40 if quick else 300):
        a, t, _o = sane_case(rng)
        par = parents_of(a)
        cand = [n2 for n2 in key_order(a) if par[n2] and all(t[p][0] == 7 for p in par[n2])]
        if not cand:
            continue
        x = rng.choice(cand)
        now = _o[1]["time"]
        rel_t = max([t[p][8] for p in par[x]] + [0])
        o = dict(_o[1], lookahead=rng.choice([0, 0, 5]))
        fb.append((a, t, x, rel_t, o))
    fb_impl = core.run_impl("taskgraph.py", {"cases": [{"graphs": [spec_of(a, t)], "op": ["fallback", x, max(0, r - 2), r, o, []]}
                                                       for a, t, x, r, o in fb]})["results"]
    fb_cases = []
    for (a, t, x, r, o), (after, res_s, res_r) in zip(fb, fb_impl):
        t2 = {k2: list(v2) for k2, v2 in t.items()}
        t2[x][0], t2[x][1] = after[0], after[1]          # the state the REAL calls left the task in
        t2[x][3] = t2[x][9][0]                           # schedule() stored the strategy's runtime
        t2[x][7] = None
        fb_cases.append(("(%s, %s)" % (g_graph(a, t2), g_op(["sched", o, []])), res_s, [a, t2, x, o]))
        if after[0] != 1:
            ctx.cov.setdefault("notes", []).append("fallback: task left in state %s" % after[0])
        elif res_s[0] == 0 and x not in res_s[1][0] and r <= o["time"] + o["lookahead"]:
            ctx.violation("fallback%d" % x, {"stream": "S-fallback", "mapping": a, "tasks": t, "task": x, "released_at": r,
                                             "options": o, "frontier": res_s, "releasable": res_r,
                                             "what": "a task that was scheduled ahead, released and unscheduled (now VIRTUAL, all "
                                                     "parents COMPLETED) is not offered: starvation"})
    try:
        for idx, mv in ctx.model_stream("S-fallback", HEADER, "tgraph * tg_op", "tg_observe", fb_cases)[:3]:
            ctx.violation("fallbackcorr%d" % idx, {"stream": "S-fallback", "case": fb_cases[idx][2], "implementation": fb_cases[idx][1],
                                                   "model": mv, "what": "frontier after schedule-ahead / release / unschedule "
                                                   "differs from the model on the resulting state"})
    except core.ModelEvalError as e:
        ctx.broken.append({"kind": "correspondence", "name": "S-fallback", "detail": str(e)[-600:]})

    # ---- S-workload
    wl_cases = []
    wl_payload = []
    for _ in range(60 if quick else 400):
        gs = []
        for gi in range(rng.choice([2, 2, 3])):
            a, t, _ = rand_case(rng, ["flags"])
            gs.append((a, t))
        o = rand_opts(rng, [], {})
        if rng.random() < 0.2:
            o["placed"] = [[gi, n] for gi, (a, t) in enumerate(gs) for n in key_order(a) if t[n][0] in (3, 4) and rng.random() < 0.6]
        draws = [rng.randrange(3) for _ in range(24)]
        wl_payload.append({"graphs": [spec_of(a, t) for a, t in gs], "op": ["wl_sched", o, draws]})
        wl_cases.append((gs, o, draws))
    wl_impl = core.run_impl("taskgraph.py", {"cases": wl_payload})["results"]

    def g_wl_opts(o):
        # the model takes the placed tasks per graph: (graph index, id) pairs are passed to every graph in the
        # code as the same list of Task objects; ids are unique per graph here, so they are renumbered g*100+id
        return g_opts(o)
    cases = []
    for (gs, o, draws), r in zip(wl_cases, wl_impl):
        if o["placed"] is not None:
            continue        # worker-pool tasks of several graphs: covered per graph in S-taskgraph
        txt = "(%s, %s, %s)" % (glist([g_graph(a, t) for a, t in gs]), g_opts(o), glist([gz(d) for d in draws]))
        cases.append((txt, r, [[a for a, _ in gs], o, draws]))
    try:
        mism = ctx.model_stream("S-workload", HEADER, "list tgraph * sched_opts * list Z", "wl_observe", cases)
        for idx, mv in mism[:3]:
            ctx.violation("workload%d" % idx, {"stream": "S-workload", "case": cases[idx][2], "implementation": cases[idx][1],
                                               "model": mv, "what": "Workload.get_schedulable_tasks differs from the "
                                               "concatenation of the per-graph frontiers"})
    except core.ModelEvalError as e:
        ctx.broken.append({"kind": "correspondence", "name": "S-workload", "detail": str(e)[-600:]})

    # ---- monitors on the implementation's results
    fcases, fwhere, ccases, cwhere = [], [], [], []
    nsane = 0
    for i, ((a, t, op), r) in enumerate(zip(triples, res)):
        if op[0] == "sched" and op[1]["placed"] is None and r[0] == 0:
            fcases.append("(%s, %s, %s)" % (g_graph(a, t), g_opts(op[1]), glist([gz(x) for x in r[1][0]])))
            fwhere.append(i)
        if op[0] == "notify" and not t[op[1]][6] and r[0][0] == 0:
            ccases.append("(%s, %s, %s)" % (g_graph(a, t), gz(op[1]), glist([gz(x) for x in r[0][1][0]])))
            cwhere.append(i)
    rcases, rwhere, lcases, lwhere, ecases, ewhere = [], [], [], [], [], []
    for i, ((a, t, op), r) in enumerate(zip(triples, res)):
        if op[0] == "ready":
            rcases.append("(%s, %s, %s)" % (g_graph(a, t), gz(op[1]), gbool(r)))
            rwhere.append(i)
        elif op[0] == "releasable":
            lcases.append("(%s, %s)" % (g_graph(a, t), glist([gz(x) for x in r])))
            lwhere.append(i)
        elif op[0] == "notify" and not t[op[1]][6] and r[0] == [1, 3]:
            ecases.append("(%s, %s)" % (g_graph(a, t), gz(op[1])))
            ewhere.append(i)
    mcases, mwhere = [], []
    for i, j in pairs:
        if res[i][0] == 0 and res[j][0] == 0:
            mcases.append("(%s, %s)" % (glist([gz(x) for x in res[i][1][0]]), glist([gz(x) for x in res[j][1][0]])))
            mwhere.append((i, j))
    dist.update({"frontier_monitored": len(fcases), "mono_pairs": len(mcases), "children_monitored": len(ccases),
                 "workload_cases": len(cases)})
    ctx.cov["input_distribution"] = {"ops": dist}

    mono_py_bad = [(i, j) for i, j in pairs if res[i][0] == 0 and res[j][0] == 0
                   and not set(res[i][1][0]) <= set(res[j][1][0])]
    dist["mono_quadruples"] = len(quads)
    dist["mono_quadruples_where_release_tg_or_lookahead_adds_a_task"] = sum(
        1 for at in quads if all(res[at + k][0] == 0 for k in range(4))
        and len({tuple(sorted(res[at + k][1][0])) for k in range(4)}) > 1)

    def report(idx, tag, what, extra=None):
        a, t, op = triples[idx]
        d = {"stream": "S-taskgraph monitor", "mapping": a,
             "tasks(state,release,deadline,raw_remaining,prob/16,terminal,conditional,expected_start,completion,runtimes)": t,
             "operation": op, "implementation": res[idx], "what": what}
        d.update(extra or {})
        ctx.violation("%s%d" % (tag, idx), d)
    W1 = ("get_schedulable_tasks: a RELEASED task whose release time has arrived is missing, or a COMPLETED / CANCELLED task is "
          "offered, or a SCHEDULED / RUNNING task is offered without retraction / preemption")
    W2 = "a policy that does not plan ahead (lookahead 0, no retraction, no release_taskgraphs) was offered a VIRTUAL task with an unfinished parent"
    W3 = ("get_schedulable_tasks: the same graph, states, time and draws, a larger lookahead and/or release_taskgraphs switched on, "
          "and a task of the first offer is missing from the second (C18_mono)")
    for i, j in mono_py_bad[:3]:
        report(i, "mono", W3, {"second_call_options": triples[j][2][1], "second_call_result": res[j],
                               "missing_from_second_offer": sorted(set(res[i][1][0]) - set(res[j][1][0]))})
    W4 = "notify_task_completion did not release exactly the children whose every parent is complete (join: after its first parent)"
    try:
        # the three monitors over the same observations are evaluated together (parsing the cases dominates);
        # only when the conjunction fails somewhere are they evaluated one by one to name the clause
        fmons = [("c18_frontier_check", "frontier", W1), ("c18_no_plan_ahead_check", "planahead", W2),
                 ("c18_virtual_offer_check", "virtualoffer",
                  "get_schedulable_tasks (no retraction, no release_taskgraphs, no conditional task): a VIRTUAL task is offered "
                  "iff its estimated completion (latest over its parents) is within time + lookahead + its runtime "
                  "[reference estimate by recursion over the parents]")]
        conj = "(fun x => andb (c18_frontier_check x) (andb (c18_no_plan_ahead_check x) (c18_virtual_offer_check x)))"
        if ctx.monitor_stream("S-frontier", HEADER, "tgraph * sched_opts * list Z", conj, fcases):
            for fn, tag, what in fmons:
                for b in ctx.monitor_stream("S-frontier-" + tag, HEADER, "tgraph * sched_opts * list Z", fn, fcases)[:3]:
                    report(fwhere[b], tag, what)
        ctx.cov["input_distribution"]["no_plan_ahead_side_conditions_hold"] = sum(
            1 for i in fwhere if py_no_plan_ahead_applies(*triples[i]))
        for b in ctx.monitor_stream("S-mono", HEADER, "list Z * list Z", "c18_mono_check", mcases)[:3]:
            i, j = mwhere[b]
            if (i, j) not in mono_py_bad:      # (already reported by the Python form of the same check)
                report(i, "mono", W3, {"second_call_options": triples[j][2][1], "second_call_result": res[j]})
        for b in ctx.monitor_stream("S-children", HEADER, "tgraph * Z * list Z", "c18_children_check", ccases)[:3]:
            report(cwhere[b], "children", W4)
        for b in ctx.monitor_stream("S-children-err", HEADER, "tgraph * Z", "c18_children_err_check", ecases)[:3]:
            report(ewhere[b], "childrenerr", "notify_task_completion raised RuntimeError although no child had started")
        for b in ctx.monitor_stream("S-ready", HEADER, "tgraph * Z * bool", "c18_ready_check", rcases)[:3]:
            report(rwhere[b], "ready", "is_ready_to_run: a regular task needs ALL parents complete, a join ONE complete and none still alive "
                                       "(every parent complete or CANCELLED), and the state "
                                       "SCHEDULED / PREEMPTED")
        for b in ctx.monitor_stream("S-releasable", HEADER, "tgraph * list Z", "c18_releasable_check", lcases)[:3]:
            report(lwhere[b], "releasable", "get_releasable_tasks: exactly the VIRTUAL / SCHEDULED / PREEMPTED tasks whose every "
                                            "parent is complete")
    except core.ModelEvalError as e:
        ctx.broken.append({"kind": "monitor", "name": "c18 monitors", "detail": str(e)[-600:]})
        for i in fwhere:
            a, t, op = triples[i]
            if not py_frontier_check(a, t, op[1], res[i][1][0]):
                report(i, "frontier", W1 + " (Python fallback of the monitor)")
                break
        for i in cwhere:
            a, t, op = triples[i]
            if not py_children_check(a, t, op[1], res[i][0][1][0]):
                report(i, "children", W4 + " (Python fallback)")
                break
