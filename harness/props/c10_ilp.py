"""C10 (ILP part) — and the machinery shared by the four ILP part checks (c10_ilp .. c14_ilp):
world generator, adapter call, rendering of an instance as a Gallina `instance`, the row-by-row
comparison of `gen_ilp` with the live gurobipy model, the plan comparison (`answer`), and the
monitors applied to the solver's own answer and to probing optima of the live model.
"""
import json
import os

import core
from core import gz, glist, gbool

FILES = ["schedulers/ilp_scheduler.py", "schedulers/base_scheduler.py", "workload/tasks.py", "workload/graph.py",
         "workload/strategy.py", "workload/resources.py", "workload/resource.py", "workers/workers.py",
         "workload/placement.py", "workload/workload.py"]
HEADER = "From Verif Require Import Gen.Src_Ilp Model.IlpModel."
TRUSTED = [
    "Gurobi is trusted to return assignments that satisfy the model it was given (checked on every returned and probed "
    "assignment by `satb (gen_ilp I)` inside Coq) and, for C14 only, to be optimal when MIPGap=0; its float values are "
    "rounded to integers (cases with a value farther than 1e-6 from an integer are counted and skipped)",
    "translator/frag_ilp.py (start lower bound, deadline row, placement rows, precedence row, all-parents-placed "
    "indicators, overlap indicators and sum, capacity sense, dependent-pair row) and the name->key parser of "
    "harness/impl/ilp.py (rows and variables of the live model are identified by their descriptive names)",
    "scope: batching=False, preemptive=False (no task appears twice in the variable dictionary); requests use resource id "
    "'any'; Graph.are_dependent is modelled as reachability, Worker compatibility as total >= request on the deep copy; "
    "the contents of get_schedulable_tasks (what is offered) are observed, not modelled (C18 owns it)",
    "gurobipy's algebra (LinExpr/QuadExpr/TempConstr normalisation: constants moved to the right-hand side, equal "
    "variables merged) is modelled by `render_sys`'s canonical form, compared with getRow/getQCRow/getGenConstr*",
]

STATES = {"V": "TVirtual", "R": "TReleased", "S": "TScheduled", "X": "TRunning"}


# ----------------------------------------------------------------------------- generator
def topo_shapes(rng, n):
    """edges over nodes 0..n-1 (i < j for every edge i->j)"""
    kind = rng.choice(["single", "chain", "fork", "join", "diamond", "random"])
    if n == 1 or kind == "single":
        return []
    if kind == "chain":
        return [(i, i + 1) for i in range(n - 1)]
    if kind == "fork":
        return [(0, j) for j in range(1, n)]
    if kind == "join":
        return [(i, n - 1) for i in range(n - 1)]
    if kind == "diamond" and n >= 4:
        return [(0, 1), (0, 2), (1, 3), (2, 3)] + [(3, j) for j in range(4, n)]
    es = []
    for j in range(1, n):
        for i in range(j):
            if rng.random() < 0.45:
                es.append((i, j))
    return es


def totals(res):
    """capacity by resource NAME: a worker may hold one resource type in several entries with distinct ids
    (e.g. GPU:0 = 1 and GPU:1 = 1); requests use the id `any`, so only the sum per name matters"""
    tot = {}
    for r, q in res:
        tot[r] = tot.get(r, 0) + q
    return tot


def split_entries(rng, res):
    """the same capacity, held in several entries of one resource name"""
    out = []
    for r, q in res:
        if q >= 2 and rng.random() < 0.5:
            a = rng.randint(1, q - 1)
            out += [[r, a], [r, q - a]]
        else:
            out.append([r, q])
    return out


def reservation_fits(flat, tasks, cand):
    """half-open truth: the candidate reservation / running interval (wi, lo, hi, need) fits together with the
    RUNNING and SCHEDULED tasks generated so far on that worker"""
    wi, lo, hi, need = cand
    ivs = [cand]
    for t in tasks:
        if t["state"] in ("S", "X") and t["prev"][0] == wi + 1:
            rt, res = t["strats"][t["prev"][1]]
            nd = totals(res)
            if t["state"] == "X":
                ivs.append((wi, t["_now"], t["_now"] + t["remaining"], nd))
            else:
                ivs.append((wi, t["prev"][2], t["prev"][2] + rt, nd))
    cap = totals(flat[wi]["res"])
    for (_, a, b, _n) in ivs:
        use = {}
        for (_, c, d, nd) in ivs:
            if c <= a < d:
                for r, q in nd.items():
                    use[r] = use.get(r, 0) + q
        if any(q > cap.get(r, 0) for r, q in use.items()):
            return False
    return True


def gen_world(rng, profile="mixed", max_tasks=5):
    """A reachable scheduler input: graphs whose tasks are COMPLETED / RUNNING / SCHEDULED / RELEASED / VIRTUAL
    consistently with the edges, on 1-3 heterogeneous workers."""
    now = rng.choice([0, 0, 3, 10, 17])
    nres = rng.choice([1, 1, 2])
    pools = []
    nworkers = rng.choice([1, 1, 2, 2, 3])
    flat = []
    for i in range(nworkers):
        res = [[0, rng.choice([1, 2, 2, 3])]]
        if nres == 2 and rng.random() < 0.6:
            res.append([1, rng.choice([1, 2])])
        if rng.random() < 0.15:
            res = [[1, 1]] if nres == 2 else res
        flat.append({"res": split_entries(rng, res) if rng.random() < 0.4 else res})
    if nworkers >= 2 and rng.random() < 0.5:
        pools = [flat[:1], flat[1:]]
    else:
        pools = [flat]
    release_tg = profile in ("graph",) or (profile == "mixed" and rng.random() < 0.45)
    lookahead = rng.choice([0, 0, 0, 30]) if profile != "taskwise" else 0
    goal = "max_goodput" if rng.random() < 0.8 else "max_slack"
    enforce = True if goal == "max_goodput" else rng.random() < 0.5
    if profile == "taskwise":
        release_tg, enforce = False, True
    retract = rng.random() < 0.25
    ngraphs = rng.choice([1, 2, 2, 3])
    tasks, graphs = [], []
    tid = 0
    free = [totals(w["res"]) for w in flat]
    budget = max_tasks
    for g in range(ngraphs):
        if budget <= 0:
            break
        n = min(budget, rng.choice([1, 1, 2, 2, 3, 4]))
        budget -= n
        edges = topo_shapes(rng, n)
        ids = list(range(tid, tid + n))
        tid += n
        parents = {j: [i for (i, k) in edges if k == j] for j in range(n)}
        state = {}
        for j in range(n):
            if all(state[i] == "C" for i in parents[j]):
                if parents[j] or rng.random() < 0.9:
                    state[j] = rng.choice(["C", "X", "S", "R", "R", "R"] if any(k for k in range(j + 1, n)) or parents[j]
                                          else ["X", "S", "R", "R", "R", "R"])
                else:
                    state[j] = "V"        # a source that is not released yet (future release)
            else:
                state[j] = "V"
        if all(s == "C" for s in state.values()):
            state[n - 1] = "R"
        gd = {"id": g, "nodes": ids, "edges": [[ids[i], ids[j]] for i, j in edges]}
        graphs.append(gd)
        base_deadline = now + rng.choice([-1, 2, 5, 9, 14, 22, 40])
        for j in range(n):
            ns = rng.choice([1, 1, 2])
            strats = []
            for k in range(ns):
                rt = rng.choice([1, 2, 3, 4, 5, 6, 8])
                res = [[0, rng.choice([1, 1, 2])]]
                if nres == 2 and rng.random() < 0.35:
                    res = [[1, 1]] if rng.random() < 0.5 else res + [[1, 1]]
                strats.append([rt, res])
            st = state[j]
            td = {"id": ids[j], "graph": g, "state": st, "strats": strats,
                  "deadline": base_deadline + rng.choice([0, 0, 3, 7]) + 2 * j}
            if st == "V":
                td["release"] = now + rng.choice([1, 5, 40]) if not parents[j] else -1
            else:
                td["release"] = max(0, now - rng.choice([0, 0, 2, 9]))
            if st in ("S", "X", "C"):
                # a previous placement that fits the worker
                opts = []
                for wi, w in enumerate(flat):
                    for k, (rt, res) in enumerate(strats):
                        need = {}
                        for r, q in res:
                            need[r] = need.get(r, 0) + q
                        tot = totals(w["res"])
                        if all(tot.get(r, 0) >= q for r, q in need.items()):
                            fits_now = all(free[wi].get(r, 0) >= q for r, q in need.items())
                            opts.append((wi, k, rt, need, fits_now))
                if st == "X":
                    opts = [o for o in opts if o[4]]
                if st == "C" and not opts:
                    # a COMPLETED task stays completed (its children were generated accordingly); where it ran is irrelevant
                    opts = [(0, 0, strats[0][0], {}, False)]
                if not opts:
                    st = td["state"] = "R"
                else:
                    wi, k, rt, need, _ = rng.choice(opts)
                    if st == "X":
                        started = rng.randint(max(td["release"], now - rt + 1), now) if now - rt + 1 <= now else now
                        started = max(started, td["release"])
                        rem = max(1, rt - (now - started))
                        if reservation_fits(flat, tasks, (wi, now, now + rem, need)):
                            td["prev"] = [wi + 1, k, started]
                            td["remaining"] = rem
                            td["_now"] = now
                            for r, q in need.items():
                                free[wi][r] -= q
                        else:
                            st = td["state"] = "R"
                    elif st == "S":
                        start = now + rng.choice([1, 2, 6])
                        # reservations made by earlier invocations are jointly feasible with what runs and what is reserved
                        if reservation_fits(flat, tasks, (wi, start, start + rt, need)):
                            td["prev"] = [wi + 1, k, start]
                        else:
                            st = td["state"] = "R"
                    else:
                        started = max(td["release"], now - rt - rng.choice([0, 3]))
                        td["prev"] = [wi + 1, k, started]
                        td["completed"] = min(now, started + rt)
            tasks.append(td)
    for t in tasks:
        t.pop("_now", None)
    allowed0 = [rng.randrange(len(graphs))] if rng.random() < 0.15 else []
    horizon = max([t["deadline"] for t in tasks] + [now]) + 30
    # the scheduler's own runtime as the simulator is told it: measured (-1), zero, or a fixed positive duration
    sched_runtime = rng.choice([0, 0, -1, 3, 5, 10])
    return {"now": now, "pools": pools, "graphs": graphs, "tasks": tasks, "horizon": horizon,
            "cfg": {"enforce": enforce, "retract": retract, "release_tg": release_tg, "goal": goal,
                    "lookahead": lookahead, "allowed0": allowed0, "sched_runtime": sched_runtime}}


def gen_dispatch_world(rng):
    """Retraction on, planner invoked when a parent P is SCHEDULED for `now` or earlier but not RUNNING yet, its VIRTUAL
    child C within the lookahead (>= P's runtime), room for C beside P: the child must still wait for P's expected finish."""
    now = rng.choice([10, 17])
    rt_p = rng.choice([5, 12, 30, 50])
    start_p = now - rng.choice([0, 0, 3])
    flat = [{"res": [[0, 2]]}] if rng.random() < 0.5 else [{"res": [[0, 1]]}, {"res": [[0, 1]]}]
    tasks = [{"id": 0, "graph": 0, "state": "S", "strats": [[rt_p, [[0, 1]]]], "deadline": now + rt_p + 200, "release": max(0, start_p - 2),
              "prev": [1, 0, start_p]},
             {"id": 1, "graph": 0, "state": "V", "strats": [[rng.choice([2, 5]), [[0, 1]]]], "deadline": now + rt_p + 300, "release": -1}]
    graphs = [{"id": 0, "nodes": [0, 1], "edges": [[0, 1]]}]
    if rng.random() < 0.5:
        tasks.append({"id": 2, "graph": 1, "state": "R", "strats": [[4, [[0, 1]]]], "deadline": now + 400, "release": now})
        graphs.append({"id": 1, "nodes": [2], "edges": []})
    return {"now": now, "pools": [flat], "graphs": graphs, "tasks": tasks, "horizon": now + rt_p + 400,
            "cfg": {"enforce": True, "retract": True, "release_tg": rng.random() < 0.3, "goal": "max_goodput",
                    "lookahead": rt_p + rng.choice([0, 10, 50]), "allowed0": [], "sched_runtime": rng.choice([0, -1, 4, 8])}}


def gen_reserve_world(rng):
    """One contended worker on which an earlier invocation reserved the whole capacity for task B (SCHEDULED for later,
    retract_schedules off), and a released task C that cannot run without meeting B's reservation unless B is moved."""
    now = rng.choice([0, 3, 10])
    cap = rng.choice([1, 1, 2])
    res = [[0, cap]] if cap == 1 or rng.random() < 0.5 else [[0, 1], [0, cap - 1]]
    rt_b = rng.choice([6, 8, 10])
    start_b = now + rng.choice([2, 3])
    rt_c = rng.choice([4, 6, 10])
    tasks = [{"id": 0, "graph": 0, "state": "S", "strats": [[rt_b, [[0, cap]]]], "deadline": now + rng.choice([rt_b + 4, 60]),
              "release": now, "prev": [1, 0, start_b]},
             {"id": 1, "graph": 1, "state": "R", "strats": [[rt_c, [[0, rng.randint(1, cap)]]]],
              "deadline": now + 1 + rt_c + rng.choice([0, 1, 3]), "release": now}]
    if rng.random() < 0.4:
        tasks.append({"id": 2, "graph": 2, "state": "R", "strats": [[3, [[0, 1]]]], "deadline": now + 40, "release": now})
    graphs = [{"id": t["graph"], "nodes": [t["id"]], "edges": []} for t in tasks]
    return {"now": now, "pools": [[{"res": res}]], "graphs": graphs, "tasks": tasks, "horizon": now + 90,
            "cfg": {"enforce": True, "retract": False, "release_tg": False, "goal": "max_goodput", "lookahead": 0, "allowed0": []}}


# ----------------------------------------------------------------------------- Gallina rendering
def gpairs(l):
    return glist(["(%s, %s)" % (gz(a), gz(b)) for a, b in l])


def g_instance(w, r, extra=()):
    """The instance the planner saw: offered + previously placed tasks in the observed order, with the
    observed state / release / deadline / remaining time of the real Task objects.  `extra`: further tasks of the
    world appended for a monitor that judges the answer against the world description."""
    tds = {t["id"]: t for t in w["tasks"]}
    workers = [wd for pool in w["pools"] for wd in pool]
    # capacity by resource name, summed here over the worker's entries (first-occurrence order) — NOT taken from
    # Resources.get_unique_resource_types, so the live model's capacity constants are compared with the true totals
    gw = glist(["(mkWorker %s %s)" % (gz(i + 1), gpairs(list(totals(wd["res"]).items()))) for i, wd in enumerate(workers)])
    ts = []
    for tid in list(r["order"]) + list(extra):
        td = tds[tid]
        ob = r["state"][str(tid)]
        st = STATES[ob["state"]]
        strats = glist(["(mkStrat %s %s %s)" % (gz(k + 1), gz(rt), gpairs(res)) for k, (rt, res) in enumerate(td["strats"])])
        prev = "(Some (%s, %s))" % (gz(td["prev"][0]), gz(td["prev"][1])) if ob["state"] == "X" else "None"
        ts.append("(mkTask %s %s %s %s %s %s %s %s)" % (gz(tid), gz(td["graph"]), st, gz(ob["release"]), gz(ob["deadline"]),
                                                       strats, prev, gz(ob["remaining"])))
    gs = glist(["(mkGraph %s %s %s)" % (gz(g["id"]), glist([gz(n) for n in g["nodes"]]), gpairs(g["edges"])) for g in w["graphs"]])
    c = w["cfg"]
    return "(mkInst %s %s %s %s %s %s %s %s %s %s)" % (
        gz(w["now"]), gw, glist(ts), core.gnat(r["noffered"]), gs, gbool(c["enforce"]), gbool(c["retract"]),
        gbool(c["release_tg"]), "Goodput" if c["goal"] == "max_goodput" else "Slack",
        glist([gz(g) for g in c.get("allowed0", [])]))


VAR_CTORS = {0: "VStart", 1: "VPlaced", 2: "VApp", 3: "VOverlap", 4: "VAfter", 5: "VBefore", 6: "VGReward", 7: "VTReward"}


def g_var(k):
    return "(%s %s)" % (VAR_CTORS[k[0]], " ".join(gz(x) for x in k[1:]))


def g_asg(vals):
    return glist(["(%s, %s)" % (g_var(k), gz(v)) for k, v in vals])


def g_plan(plan):
    return glist(["(%s, %s)" % (gz(t), "Some (%s, %s, %s)" % tuple(gz(x) for x in d) if d else "None") for t, d in plan])


def expected_sys(dump):
    """The adapter's canonical dump in the shape of `render_sys`."""
    vs, lin, ind, ands, qs, obj = dump
    return [
        [[k, ty, lb, ub] for k, ty, lb, ub in vs],
        [[k, [[v, c] for v, c in ts], s, rhs] for k, ts, s, rhs in lin],
        [[k, b, bv, [[v, c] for v, c in ts], s, rhs] for k, b, bv, ts, s, rhs in ind],
        [[k, r, ops] for k, r, ops in ands],
        [[k, [[v, c] for v, c in lt], [[a, b, c] for a, b, c in qt], s, rhs] for k, lt, qt, s, rhs in qs],
        [[[v, c] for v, c in obj[0]], [[a, b, c] for a, b, c in obj[1]], obj[2]],
    ]


# ----------------------------------------------------------------------------- running
def run_worlds(worlds, probe=True, chunk=25):
    """Run the adapter (several processes, deterministic order).  A process that dies takes only its own worlds with
    it: they are re-run one by one and the failure is recorded for the world that caused it."""
    from concurrent.futures import ThreadPoolExecutor
    for w in worlds:
        w["probe"] = bool(probe)
    parts = [worlds[i:i + chunk] for i in range(0, len(worlds), chunk)]

    def one(part):
        try:
            return core.run_impl("ilp.py", {"cases": part}, timeout=900)["results"]
        except Exception as e:      # noqa: BLE001
            if len(part) == 1:
                return [{"adapter_error": "adapter process failed", "traceback": str(e)[-1500:]}]
            out = []
            for w in part:
                out.extend(one([w]))
            return out
    with ThreadPoolExecutor(max_workers=8) as ex:
        outs = list(ex.map(one, parts))
    res = []
    for o in outs:
        res.extend(o)
    return res


def distinct_nontrivial(worlds, results):
    """distinct worlds in which at least two tasks are decided together and one of them is
    RUNNING / SCHEDULED or a co-decided parent (the situations the repository's tests never build)"""
    seen = set()
    n = 0
    dist = {"status": {}, "tasks": {}, "with_running": 0, "with_scheduled": 0, "co_decided_pairs": 0, "infeasible": 0}
    for w, r in zip(worlds, results):
        key = json.dumps({k: w[k] for k in ("now", "pools", "graphs", "tasks", "cfg")}, sort_keys=True)
        if key in seen or "order" not in r:
            continue
        seen.add(key)
        order = r["order"]
        st = [r["state"][str(t)]["state"] for t in order]
        pairs = sum(1 for g in w["graphs"] for p, c in g["edges"] if p in order and c in order)
        dist["status"][str(r.get("status"))] = dist["status"].get(str(r.get("status")), 0) + 1
        dist["tasks"][str(len(order))] = dist["tasks"].get(str(len(order)), 0) + 1
        dist["with_running"] += "X" in st
        dist["with_scheduled"] += "S" in st
        dist["co_decided_pairs"] += pairs > 0
        if len(order) >= 2 and ("X" in st or "S" in st or pairs > 0):
            n += 1
    return n, dist


def stream_csys(ctx, worlds, results, tag="S-csys"):
    """gen_ilp vs the live gurobipy model, row by row; `answer` vs the returned Placements."""
    cases, where = [], []
    for i, (w, r) in enumerate(zip(worlds, results)):
        if "dump" not in r:
            continue
        cases.append((g_instance(w, r), expected_sys(r["dump"]), i))
        where.append(i)
    ok = True
    try:
        mism = ctx.model_stream(tag, HEADER, "instance", "(fun i => render_sys (gen_ilp i))", cases, shard=60)
        for idx, mv in mism[:3]:
            i = where[idx]
            diff = first_diff(core.norm_val(expected_sys(results[i]["dump"])), mv)
            ctx.violation("csys%d" % i, {"stream": tag, "world": worlds[i], "what": "gen_ilp differs from the live gurobipy model",
                                         "first_difference": diff, "order": results[i]["order"]})
        ok = not mism
    except core.ModelEvalError as e:
        ctx.broken.append({"kind": "correspondence", "name": tag, "detail": str(e)[-800:]})
        ok = False
    return ok


def stream_raises(ctx, worlds, results, tag="S-raise"):
    """`ilp_raises` of the model vs whether schedule() raised"""
    cases = [(g_instance(w, r), 1 if "error" in r else 0, i) for i, (w, r) in enumerate(zip(worlds, results)) if r.get("order")]
    try:
        mism = ctx.model_stream(tag, HEADER, "instance", "(fun i => vbool (ilp_raises i))", cases, shard=200)
        for idx, mv in mism[:2]:
            i = cases[idx][2]
            ctx.violation("raises%d" % i, {"stream": tag, "world": worlds[i], "implementation": results[i].get("error", "returned"),
                                           "model_says_raises": mv, "what": "schedule() raises / returns where the model says otherwise"})
    except core.ModelEvalError as e:
        ctx.broken.append({"kind": "correspondence", "name": tag, "detail": str(e)[-800:]})


def first_diff(exp, got, path=()):
    if isinstance(exp, list) and isinstance(got, list):
        for j, (a, b) in enumerate(zip(exp, got)):
            if a != b:
                return first_diff(a, b, path + (j,))
        if len(exp) != len(got):
            return {"path": list(path), "live_len": len(exp), "model_len": len(got),
                    "extra": (exp[len(got):] or got[len(exp):])[:2]}
        return None
    return {"path": list(path), "live": exp, "model": got}


def stream_plan(ctx, worlds, results, tag="S-plan"):
    """answer I (solver's values) vs the Placements ILPScheduler.schedule() returned."""
    cases, where = [], []
    skipped = 0
    for i, (w, r) in enumerate(zip(worlds, results)):
        if "dump" not in r or "plan" not in r:
            continue
        if r.get("status") == 2:
            if r.get("sol") is None:
                skipped += 1
                continue
            sol = "(Some (asg_of %s))" % g_asg(r["sol"])
        else:
            sol = "None"
        cases.append(("(%s, %s)" % (g_instance(w, r), sol), r["plan"], i))
        where.append(i)
    ctx.cov.setdefault("input_distribution", {})["nonintegral_solutions_skipped"] = skipped
    try:
        mism = ctx.model_stream(tag, HEADER, "instance * option assignment", "(fun p => vplan (answer (fst p) (snd p)))", cases, shard=80)
        for idx, mv in mism[:3]:
            i = where[idx]
            ctx.violation("plan%d" % i, {"stream": tag, "world": worlds[i], "implementation": results[i]["plan"], "model": mv,
                                         "what": "readback of the solver's values differs from the returned Placements"})
    except core.ModelEvalError as e:
        ctx.broken.append({"kind": "correspondence", "name": tag, "detail": str(e)[-800:]})


def monitor_points(worlds, results):
    """(world index, tag, assignment) for the solver's own optimum and every probing optimum"""
    pts = []
    for i, r in enumerate(results):
        if "dump" not in r:
            continue
        if r.get("status") == 2 and r.get("sol") is not None:
            pts.append((i, "solver", r["sol"]))
        for tag, vals in r.get("probes", []):
            pts.append((i, tag, vals))
    return pts


def run_monitor(ctx, worlds, results, stream, check_fn, what, pts=None, fallback=None):
    """Apply a Gallina monitor  instance -> plan -> bool  to readback of every monitored point, and
    `satb (gen_ilp I)` to the point itself.  Returns number of points."""
    pts = monitor_points(worlds, results) if pts is None else pts
    cases = ["(%s, asg_of %s)" % (g_instance(worlds[i], results[i]), g_asg(vals)) for i, tag, vals in pts]
    try:
        bad = ctx.monitor_stream(stream, HEADER, "instance * assignment",
                                 "(fun p => %s (fst p) (readback (fst p) (snd p)))" % check_fn, cases, shard=80)
    except core.ModelEvalError as e:
        ctx.broken.append({"kind": "monitor", "name": stream, "detail": str(e)[-800:]})
        bad = []
        if fallback is not None:
            bad = [j for j, (i, tag, vals) in enumerate(pts) if not fallback(worlds[i], results[i], vals)]
    for b in bad[:3]:
        i, tag, vals = pts[b]
        ctx.violation("%s_%d" % (stream.replace("-", "").replace(":", ""), b),
                      {"stream": stream, "world": worlds[i], "point": tag, "assignment": vals, "order": results[i]["order"],
                       "what": what})
    return len(pts)


def run_sat_monitor(ctx, worlds, results, stream="M-sat"):
    pts = monitor_points(worlds, results)
    cases = ["(%s, asg_of %s)" % (g_instance(worlds[i], results[i]), g_asg(vals)) for i, tag, vals in pts]
    try:
        bad = ctx.monitor_stream(stream, HEADER, "instance * assignment", "(fun p => satb (gen_ilp (fst p)) (snd p))", cases, shard=80)
        for b in bad[:3]:
            i, tag, vals = pts[b]
            ctx.violation("sat%d" % b, {"stream": stream, "world": worlds[i], "point": tag, "assignment": vals,
                                        "what": "an assignment returned by Gurobi for the live model does not satisfy gen_ilp "
                                                "(model and implementation disagree on the meaning of a row)"})
    except core.ModelEvalError as e:
        ctx.broken.append({"kind": "monitor", "name": stream, "detail": str(e)[-800:]})


def scale_world(w, k):
    """the same world with every time quantity multiplied by k; flagged `units`, so that the adapter expresses the multiples
    of 1000 in ms — strategies, deadlines, releases and earlier placements of one world then carry DIFFERENT units"""
    w = json.loads(json.dumps(w))
    w["now"] *= k
    w["horizon"] *= k
    c = w["cfg"]
    c["lookahead"] *= k
    if c.get("sched_runtime", 0) > 0:
        c["sched_runtime"] *= k
    for t in w["tasks"]:
        for s_ in t["strats"]:
            s_[0] *= k
        t["deadline"] *= k
        if t.get("release", -1) >= 0:
            t["release"] *= k
        if "prev" in t:
            t["prev"][2] *= k
        for f in ("remaining", "completed"):
            if f in t:
                t[f] *= k
    w["units"] = k
    return w


def common_prelude(ctx, props_file, n_quick, n_thorough, profile="mixed", extra_reserve=0, extra_dispatch=0):
    ctx.fingerprint(FILES)
    ctx.translate(["Ilp"])
    built = ctx.build(props_file, deps=["Model/IlpModel.v"])
    n = n_quick if ctx.tier == "quick" else n_thorough
    worlds = [gen_world(ctx.rng, profile) for _ in range(n)]
    # every sixth world on a different time grain with mixed units (microseconds next to milliseconds)
    worlds = [scale_world(w, [500, 250, 500, 100][(i // 6) % 4]) if i % 6 == 5 else w for i, w in enumerate(worlds)]
    worlds += [gen_reserve_world(ctx.rng) for _ in range(extra_reserve if ctx.tier == "quick" else 10 * extra_reserve)]
    worlds += [gen_dispatch_world(ctx.rng) for _ in range(extra_dispatch if ctx.tier == "quick" else 10 * extra_dispatch)]
    results = run_worlds(worlds)
    errs = [(w, r) for w, r in zip(worlds, results) if "error" in r]
    for w, r in errs[:2]:
        ctx.violation("raise%d" % worlds.index(w), {"stream": "S-csys", "world": w, "what": "ILPScheduler.schedule() raised: " + r["error"],
                                "traceback": r.get("traceback")})
    aerrs = [(w, r) for w, r in zip(worlds, results) if "adapter_error" in r]
    for w, r in aerrs[:2]:
        ctx.violation("adapter%d" % worlds.index(w), {"stream": "S-csys", "world": w, "error": r["adapter_error"], "traceback": r.get("traceback"),
                                  "what": "the adapter could not interpret what the implementation built for this world: "
                                          + r["adapter_error"]})
    fed = [(w, r) for w, r in zip(worlds, results) if "seen_order" in r and r["seen_order"] != r.get("order")]
    for w, r in fed[:2]:
        ctx.violation("fed%d" % worlds.index(w), {"stream": "S-csys", "world": w, "fed_to_the_model": r["seen_order"], "offered_plus_previously_placed": r["order"],
                              "what": "the planner fed its model another task list than offered + previously placed "
                                      "(RUNNING, and SCHEDULED unless retract_schedules)"})
    stream_raises(ctx, worlds, results)
    nt, dist = distinct_nontrivial(worlds, results)
    ctx.cov["distinct_nontrivial"] += nt
    ctx.cov["input_distribution"] = dist
    ctx.rules.append("worlds: 1-3 task graphs (single/chain/fork/join/diamond/random DAG, <= %d tasks) whose tasks are "
                     "COMPLETED/RUNNING/SCHEDULED/RELEASED/VIRTUAL consistently with the edges, 1-3 heterogeneous workers in 1-2 "
                     "pools (capacities sometimes split over several entries of one resource name), 1-2 strategies per task, deadlines from hopeless to loose, options enforce/retract/"
                     "release_taskgraphs/lookahead/goal and the scheduler's fixed runtime (-1, 0, 3..10 us) drawn at random; distinct = distinct world; non-trivial = >= 2 tasks "
                     "decided together of which one is RUNNING or SCHEDULED or a co-decided parent" % 5)
    for w, r in zip(worlds, results):
        if "dump" in r and len(r["order"]) >= 2:
            ctx.sample({"world": w, "order": r["order"], "sizes": r["sizes"], "status": r.get("status"), "plan": r["plan"]})
            break
    return built, worlds, results


def replay_corpus(ctx, sub, fid, fails, what, fixed=False):
    """Replay corpus/<sub>/<fid>*.json on the implementation.  A known finding prints its KNOWN-FINDING line only if
    the witness still fails; a fixed finding is a regression case: failing again is a violation."""
    d = os.path.join(core.ROOT, "corpus", sub)
    for f in sorted(os.listdir(d)) if os.path.isdir(d) else []:
        if not f.startswith(fid):
            continue
        w = json.load(open(os.path.join(d, f)))["world"]
        r = run_worlds([w], probe=False)[0]
        if fails(w, r):
            if fixed:
                ctx.violation("regress_" + fid.replace("-", ""), {"stream": "corpus", "world": w, "what": "regression of a fixed finding: " + what,
                                                                   "implementation": r.get("error", r.get("plan"))})
            else:
                ctx.known(fid, what)
        return r
    return None


def hypothesis_monitor(ctx, worlds, results):
    """The capacity theorem assumes `dep_linked`: decided tasks that depend on one another are linked by a chain of
    co-decided parents.  Checked (dep_linkedb) on every instance the real get_schedulable_tasks produced."""
    idx = [i for i, r in enumerate(results) if r.get("order")]
    cases = [g_instance(worlds[i], results[i]) for i in idx]
    try:
        bad = ctx.monitor_stream("M-hyp", HEADER, "instance", "dep_linkedb", cases, shard=200)
        for b in bad[:2]:
            ctx.violation("hyp%d" % b, {"stream": "M-hyp", "world": worlds[idx[b]], "order": results[idx[b]]["order"],
                                        "what": "the planner was offered two dependent tasks without the tasks between them: "
                                                "hypothesis dep_linked of C10_ilp_capacity does not cover this reachable input"})
    except core.ModelEvalError as e:
        ctx.broken.append({"kind": "monitor", "name": "M-hyp", "detail": str(e)[-800:]})


def reservations(w):
    """[task, [start, worker, strategy]] of the tasks an earlier invocation SCHEDULED for later (kept unless retract_schedules)"""
    if w["cfg"]["retract"]:
        return []
    return [[t["id"], [t["prev"][2], t["prev"][0], t["prev"][1]]] for t in w["tasks"] if t["state"] == "S"]


def plan_with_reservations(w, r, plan):
    """the returned decisions in the order of the decided tasks; a SCHEDULED task without a returned decision keeps its
    reservation (from the WORLD description, not from what the planner fed to its model)"""
    resv = dict((t, d) for t, d in reservations(w))
    got = dict((t, d) for t, d in plan)
    states = r["state"]
    out = []
    for tid in r["order"]:
        if states[str(tid)]["state"] == "X":
            continue
        if tid in got:
            out.append([tid, got[tid]])
        elif tid in resv:
            out.append([tid, resv[tid]])
    return out


def py_capacity_ok(w, r, plan):
    """Python form of the capacity clause of c10_check (half-open truth, at the start instants), used when the Coq
    model cannot be evaluated"""
    tds = {t["id"]: t for t in w["tasks"]}
    flat = [wd for pool in w["pools"] for wd in pool]
    sits = []
    got = dict((t, d) for t, d in plan)
    for tid in r["order"]:
        td = tds[tid]
        if r["state"][str(tid)]["state"] == "X":
            wi, k = td["prev"][0], td["prev"][1]
            sits.append((w["now"], wi, totals(td["strats"][k][1]), r["state"][str(tid)]["remaining"]))
        elif got.get(tid):
            s_, wi, k = got[tid]
            if not (1 <= wi <= len(flat)) or not (0 <= k < len(td["strats"])):
                return False
            sits.append((s_, wi, totals(td["strats"][k][1]), td["strats"][k][0]))
    for (tau, _, _, _) in sits:
        for wi, wd in enumerate(flat):
            use = {}
            for (s_, w2, need, dur) in sits:
                if w2 == wi + 1 and s_ <= tau < s_ + dur:
                    for rn, q in need.items():
                        use[rn] = use.get(rn, 0) + q
            cap = totals(wd["res"])
            if any(q > cap.get(rn, 0) for rn, q in use.items()):
                return False
    return True


def reservation_monitor(ctx, worlds, results, stream="M-c10r"):
    """C10 with the reservations of earlier invocations: (a) the returned Placements, completed with the reservation of
    every SCHEDULED task that got no decision; (b) every solver / probing point, read back, with the reservation laid
    over every SCHEDULED task it leaves unplaced."""
    cases, info = [], []
    for i, (w, r) in enumerate(zip(worlds, results)):
        if "plan" not in r or not r.get("order"):
            continue
        pl = plan_with_reservations(w, r, r["plan"])
        cases.append("(%s, %s)" % (g_instance(w, r), g_plan(pl)))
        info.append((i, "returned", pl))
    try:
        bad = ctx.monitor_stream(stream, HEADER, "instance * plan", "(fun p => c10_check (fst p) (snd p))", cases, shard=100)
    except core.ModelEvalError as e:
        ctx.broken.append({"kind": "monitor", "name": stream, "detail": str(e)[-800:]})
        bad = [j for j, (i, _, pl) in enumerate(info) if not py_capacity_ok(worlds[i], results[i], pl)]
    for b in bad[:3]:
        i, tag, pl = info[b]
        ctx.violation("resv%d" % i, {"stream": stream, "world": worlds[i], "returned_placements": results[i]["plan"],
                                     "with_reservations": pl, "fed_to_the_model": results[i].get("seen_order"),
                                     "what": "the returned placements together with the tasks an earlier invocation scheduled for later "
                                             "(and the running tasks) exceed a worker's capacity, or a decision is missing / invalid (C10)"})
    pts = [(i, tag, vals) for i, tag, vals in monitor_points(worlds, results) if reservations(worlds[i])]
    cases = ["(%s, %s, asg_of %s)" % (g_instance(worlds[i], results[i]), g_plan(reservations(worlds[i])), g_asg(vals)) for i, tag, vals in pts]
    try:
        bad = ctx.monitor_stream(stream + "p", HEADER, "instance * plan * assignment",
                                 "(fun q => c10_check (fst (fst q)) (overlay (snd (fst q)) (readback (fst (fst q)) (snd q))))", cases, shard=80)
        for b in bad[:3]:
            i, tag, vals = pts[b]
            ctx.violation("resvp%d" % b, {"stream": stream + "p", "world": worlds[i], "point": tag, "assignment": vals,
                                          "reservations": reservations(worlds[i]),
                                          "what": "a feasible point of the implementation's ILP, with the earlier reservations of the SCHEDULED "
                                                  "tasks it leaves undecided, exceeds a worker's capacity (C10)"})
    except core.ModelEvalError as e:
        ctx.broken.append({"kind": "monitor", "name": stream + "p", "detail": str(e)[-800:]})
    ctx.cov.setdefault("input_distribution", {})["worlds_with_reservations"] = sum(1 for w in worlds if reservations(w))


def run(ctx):
    built, worlds, results = common_prelude(ctx, ctx.pid.split("_")[0] + "_ilp", 50, 1200, extra_reserve=12)
    reservation_monitor(ctx, worlds, results)
    replay_corpus(ctx, "C10_ilp", "ILP-H1", lambda w, r: "error" in r,
                  "schedule() raises for a SCHEDULED task with a strategy that does not fit on some worker "
                  "(ilp_scheduler.py:248-255)", fixed=True)
    hypothesis_monitor(ctx, worlds, results)
    stream_csys(ctx, worlds, results)
    stream_plan(ctx, worlds, results)
    run_sat_monitor(ctx, worlds, results)
    n = run_monitor(ctx, worlds, results, "M-c10", "c10_check",
                    "a feasible point of the implementation's ILP is not a complete, feasible decision (C10): "
                    "missing/duplicate decision, unknown worker/strategy, start before now/release, or capacity exceeded")
    # deciding changes nothing
    for w, r in zip(worlds, results):
        if r.get("unchanged") == 0:
            ctx.violation("sidefx", {"stream": "S-csys", "world": w, "what": "schedule() changed a task's state or a worker's resources"})
            break
        if r.get("bad_ids"):
            ctx.violation("ids", {"stream": "S-plan", "world": w, "what": "a placement names an unknown pool / worker / strategy"})
            break
    ctx.cov["input_distribution"]["monitored_points"] = n
