"""C12, Clockwork part — hopeless requests are cancelled (exactly those), no batch planned past a member's deadline."""
import core
from props import c15

FILES = c15.FILES
TRUSTED = c15.TRUSTED


def run(ctx):
    ctx.fingerprint(FILES)
    ctx.translate(["Clockwork"])
    built = ctx.build("C12_cw", deps=["Model/Clockwork.v"])
    quick = ctx.tier == "quick"
    size = 4 if quick else 6
    ctx.rules.append("S-cw-tight (C12_cw): as S-cw, with every deadline set to release + runtime of one of the profile's strategies "
                     "+ {-1,0,0,1,2,5}: admission at deadline == now + fastest (admitted) and one microsecond less (cancelled), "
                     "expiry and availability at now + runtime == deadline, slower strategy chosen while a faster one exists; plus "
                     "natural histories; monitor: cancellations == hopeless offered requests in order, no member of a batch with "
                     "now + runtime > deadline, no hopeless request placed; distinct/non-trivial as in C15")
    dist_all, groups = {}, []
    for mode, n in (("tight", 130 if quick else 2000), ("natural", 70 if quick else 1000)):
        hs, impls = c15.generate(ctx, n, size, mode)
        c15.strip(hs, impls)
        nt, dist = c15.stats(ctx, hs, impls)
        ctx.cov["distinct_nontrivial"] += nt
        # boundary census: offered requests exactly tight / one microsecond short
        tight = short = 0
        for h, im in zip(hs, impls):
            ts = {t["tid"]: t for t in h["tasks"]}
            fast = {m["mid"]: min(s["rt"] for s in m["strategies"]) for m in h["world"]}
            for r in im["steps"]:
                for i in r["offered"]:
                    d = ts[i]["deadline"] - r["now"] - fast[ts[i]["mid"]]
                    tight += d == 0
                    short += d == -1
        dist["offered_exactly_tight"] = tight
        dist["offered_one_us_short"] = short
        dist_all[mode] = dist
        if mode == "tight":
            ctx.sample({"stream": "S-cw(C12)", "history": hs[0], "implementation": c15.expected(impls[0])})
        groups.append((mode, hs, impls))
    ctx.cov["input_distribution"] = dist_all
    c15.evaluate(ctx, groups, "S-cw(C12)")
    return built
