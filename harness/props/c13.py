"""C13 — EDF / FIFO / LSF honour their priority order (no priority inversion).

Also the shared library of the greedy parts of C10 and C12 (c10_greedy.py, c12_greedy.py): case
generator, Gallina rendering, the S-greedy correspondence stream and a pure-Python reference of the
DOCUMENTED policies (used only as the fallback search for a failing input when a proof, the
translator or the model evaluation is broken).
"""
import json
import os

import core
from core import gz, glist, gbool, gnat

FILES = ["schedulers/edf_scheduler.py", "schedulers/fifo_scheduler.py", "schedulers/lsf_scheduler.py",
         "schedulers/base_scheduler.py", "workers/workers.py", "workload/resources.py", "workload/resource.py",
         "workload/strategy.py", "workload/placement.py"]
TRUSTED = [
    "translator fragment frag_greedy.py: sort keys (lambda / attrgetter / partial(self.slack)), the admission comparison, "
    "copy vs deepcopy are translated; the call obtaining the offered tasks and the first-fit loop (arguments of place_task and "
    "of the Placement constructors included) are checked structurally against the modelled shape, fail-closed",
    "the worker ledger is abstract in the theorems (laws: placing only consumes, fitting is antitone in consumption) and "
    "instantiated by a simple ledger (named integer resources, several entries per name, `any`-id requests with distinct "
    "names); Resources.__gt__/allocate/__copy__/__deepcopy__ are modelled, and compared with the real classes by S-greedy "
    "(decisions and final availability of the virtual pools); requests with specific ids and BatchStrategy are outside the model",
    "EventTime values are microsecond integers (C16); graph names are compared as Python strings, rendered as their rank",
    "CPython `sorted` is a stable sort by `<` on the keys (modelled by stable insertion sort; compared by S-greedy incl. ties)",
    "the offered task list (Workload.get_schedulable_tasks) is an input of the policy here: it is taken from the real call "
    "(frontier correctness is C18's)",
]
EXPLANATION = (
    "Theorems in Props/C13.v are about Model/Greedy.v, whose sort keys / admission tests / copy mode are regenerated from the "
    "three scheduler sources (Gen/Src_Greedy.v) and proved equal to the documented ones; S-greedy compares the real schedule() "
    "with that model on generated states inside Coq (decisions and final virtual availability); M-c13 applies the monitor with "
    "the documented keys to the implementation's own decisions on single-worker pools. If the translator, a proof or the model "
    "build breaks, the Coq streams are skipped (never evaluated against a stale build) and pure-Python forms of the monitor and "
    "of the documented policy search the same cases for a concrete failing input.")
POL = ["EDF", "FIFO", "LSF"]
HEADER = "From Verif Require Import Gen.Src_Greedy Model.Greedy."


# --------------------------------------------------------------------------- generation
def pick_unit(rng, x):
    """A unit code (0 us, 1 ms, 2 s) in which x microseconds is exact: the coarsest one for half of the values."""
    exact = [u for u, f in ((0, 1), (1, 1000), (2, 10 ** 6)) if x % f == 0]
    return exact[-1] if rng.random() < 0.5 else rng.choice(exact)


def gen_case(rng, allow_f10=False, boundary=False, single=None, force_policy=None):
    """All times in the case are MICROSECONDS; the *_u fields say in which EventTime unit the adapter expresses them.
    scale 1: the small values; scale 500 / 500000: the same shapes in multiples of 0.5 ms / 0.5 s, so that e.g. 2 ms
    and 1500 us (or 1 s and 1500 ms) meet in one invocation."""
    pol = force_policy if force_policy is not None else rng.choice([0, 0, 1, 1, 2, 2])
    preemptive = pol != 1 and rng.random() < 0.3
    enforce = pol != 2 and rng.random() < (0.8 if boundary else 0.45)
    scale = rng.choice([1, 1, 1, 500, 500, 500000])
    now0 = rng.choice([0, 3, 5, 10, 17])
    now = now0 * scale
    nres = rng.randint(1, 3)
    npools = rng.randint(1, 3)
    if single is None:
        single = rng.random() < 0.5
    pools = []
    for _ in range(npools):
        ws = []
        for _ in range(1 if single else rng.randint(1, 3)):
            ws.append({"res": [[rng.randrange(nres), rng.choice([0, 1, 1, 2, 2, 3, 4])] for _ in range(rng.randint(1, 3))]})
        pools.append({"workers": ws})
    ntasks = rng.choice([2, 3, 3, 4, 4, 5, 6])
    ngraphs = rng.randint(1, 3)
    nresident = rng.choice([0, 0, 1, 1, 2, 3])
    if preemptive and not allow_f10 and nresident > 0:
        ngraphs = 1          # signature of known finding F10 kept out of the ordinary streams
    same_rt = rng.randint(1, 6) if rng.random() < 0.35 else None     # heterogeneous demands, EQUAL runtimes
    tasks = []
    dl_pool = [now0 + d for d in (-2, 0, 1, 2, 3, 3, 4, 5, 5, 8, 12)]
    for i in range(ntasks + nresident):
        strats = []
        for _ in range(rng.choice([1, 1, 2, 2, 3])):
            names = rng.sample(range(nres), rng.choice([1, 1, 2]) if nres > 1 else 1)
            strats.append({"runtime": same_rt or rng.randint(1, 6), "req": [[n, rng.choice([0, 1, 1, 1, 2, 2, 3])] for n in names]})
        if rng.random() < 0.25:      # a FIRST strategy that can never fit (more than any worker owns), a later one may
            strats.insert(0, {"runtime": same_rt or rng.randint(1, 6), "req": [[rng.randrange(nres), 50]]})
            strats = strats[:3]
        fastest = min(s["runtime"] for s in strats)
        if boundary or rng.random() < 0.5:
            deadline = now0 + fastest + rng.choice([-2, -1, 0, 0, 1, 1, 3, 6])
        else:
            deadline = rng.choice(dl_pool)
        t = {"graph": rng.randrange(ngraphs), "deadline": deadline * scale,
             "release": rng.choice([0, now0 // 2, now0, now0, rng.randint(0, now0)]) * scale, "strats": strats}
        if i >= ntasks:
            rt = max(s["runtime"] for s in strats)
            t["resident"] = {"pool": rng.randrange(3), "worker": rng.randrange(3), "strat": rng.randrange(3),
                             "start": rng.randint(0, now0) * scale, "remaining": rng.randint(1, rt) * scale}
        for s_ in strats:
            s_["runtime"] *= scale
        tasks.append(t)
    rng.shuffle(tasks)
    if rng.random() < 0.3:
        # several invocations of one operator inside one graph: tasks that share their NAME (and hence Task.unique_name) and
        # differ in their timestamp - a first-class input (tests/test_tasks.py builds such graphs); identity is the object
        for i in range(1, len(tasks)):
            same = [j for j in range(i) if tasks[j]["graph"] == tasks[i]["graph"]]
            if same and rng.random() < 0.5:
                j = rng.choice(same)
                tasks[i]["name_of"] = tasks[j].get("name_of", j)
                tasks[i]["ts"] = i
    case = {"policy": pol, "enforce": enforce, "preemptive": preemptive, "now": now, "pools": pools, "tasks": tasks,
            "rseed": rng.randrange(1 << 30)}
    if scale > 1:
        case["scale"] = scale
        case["now_u"] = pick_unit(rng, now)
        for t in tasks:
            t["deadline_u"] = pick_unit(rng, t["deadline"])
            t["release_u"] = pick_unit(rng, t["release"])
            for s_ in t["strats"]:
                s_["runtime_u"] = pick_unit(rng, s_["runtime"])
            if "resident" in t:
                t["resident"]["start_u"] = pick_unit(rng, t["resident"]["start"])
                t["resident"]["remaining_u"] = pick_unit(rng, t["resident"]["remaining"])
    return case


def mixed_units(case):
    us_ = {case.get("now_u", 0)}
    for t in case["tasks"]:
        us_ |= {t.get("deadline_u", 0), t.get("release_u", 0)} | {s.get("runtime_u", 0) for s in t["strats"]}
    return len(us_) > 1


def gen_case_ids(rng):
    """Like gen_case, but a request may name a specific resource id of some worker, and one strategy may ask for the
    same resource name twice (`any` + a specific id, or two specific ids): the cumulative fit test matters."""
    c = gen_case(rng)
    entries = {}
    for pi, p in enumerate(c["pools"]):
        for wi, w in enumerate(p["workers"]):
            for ei, (n, _) in enumerate(w["res"]):
                entries.setdefault(n, []).append([pi, wi, ei])
    for t in c["tasks"]:
        for s in t["strats"]:
            req = []
            for n, q in s["req"]:
                kinds = ["any", "id", "both", "two"]
                k = rng.choice(kinds) if n in entries else "any"
                ids = entries.get(n, [])
                if k == "any":
                    req.append([n, q])
                elif k == "id":
                    req.append([n, q, rng.choice(ids)])
                elif k == "both":
                    pair = [[n, q], [n, rng.choice([1, 1, 2]), rng.choice(ids)]]
                    rng.shuffle(pair)
                    req += pair
                else:
                    two = rng.sample(ids, 2) if len(ids) >= 2 else [rng.choice(ids)]
                    req += [[n, rng.choice([0, 1, 1, 2]), i] for i in two]
            s["req"] = req
    return c


def rid(e):
    return e[0] * 100 + e[1] * 10 + e[2]


def g_winput(case, r):
    ps = []
    for pi, p in enumerate(case["pools"]):
        ws = []
        for wi, w in enumerate(p["workers"]):
            av, tot = [], []
            for ei, (n, t) in enumerate(w["res"]):
                key = "(%s, RId %s)" % (gz(n), gz(rid([pi, wi, ei])))
                av.append("(%s, %s)" % (key, gz(r["init"][pi][wi][ei][1])))
                tot.append("(%s, %s)" % (key, gz(t)))
            ws.append("(wworker %s %s)" % (glist(av), glist(tot)))
        ps.append("(%s, %s)" % (gz(pi), glist(ws)))
    ts = []
    for ti, (d, rel, rem) in zip(r["offered"], r["offered_attrs"]):
        t = case["tasks"][ti]
        ss = []
        for s in t["strats"]:
            req = ["((%s, %s), %s)" % (gz(q[0]), "RAny" if len(q) == 2 else "RId %s" % gz(rid(q[2])), gz(q[1])) for q in s["req"]]
            ss.append("(mkStrat 0%%Z false %s 1%%Z %s)" % (glist(req), gz(s["runtime"])))
        ts.append("(wtask %s (mkTA %s %s %s %s) %s)" % (gz(ti), gz(d), gz(rel), gz(rem), gz(t["graph"]), glist(ss)))
    return "(mkWI %s %s %s %s %s %s)" % (gz(case["policy"]), gbool(case["enforce"]), gbool(case["preemptive"]),
                                           gz(case["now"]), glist(ps), glist(ts))


def f10_signature(case):
    """Input signature of known finding F10: preemption on, >= 2 task graphs, a resident task."""
    return (case["preemptive"] and len({t["graph"] for t in case["tasks"]}) >= 2
            and any("resident" in t for t in case["tasks"]))


# --------------------------------------------------------------------------- rendering
def g_strat(s):
    return "(mkSS %s %s)" % (gz(s["runtime"]), glist(["(%s, %s)" % (gz(n), gz(q)) for n, q in s["req"]]))


def g_cluster(case, init):
    ps = []
    for pi, p in enumerate(case["pools"]):
        ws = []
        for wi, w in enumerate(p["workers"]):
            es = []
            for ei, (n, tot) in enumerate(w["res"]):
                n2, av = init[pi][wi][ei]
                assert n2 == n
                es.append("(mkE %s %s %s)" % (gz(n), gz(av), gz(tot)))
            ws.append(glist(es))
        ps.append("(%s, %s)" % (gz(pi), glist(ws)))
    return glist(ps)


def g_offered(case, r):
    ts = []
    for ti, (d, rel, rem) in zip(r["offered"], r["offered_attrs"]):
        t = case["tasks"][ti]
        ts.append("(stask %s (mkTA %s %s %s %s) %s)" % (gz(ti), gz(d), gz(rel), gz(rem), gz(t["graph"]),
                                                          glist([g_strat(s) for s in t["strats"]])))
    return glist(ts)


def g_input(case, r):
    return "(mkGI %s %s %s %s %s %s)" % (gz(case["policy"]), gbool(case["enforce"]), gbool(case["preemptive"]),
                                           gz(case["now"]), g_cluster(case, r["init"]), g_offered(case, r))


def g_decisions(decs):
    out = []
    for d in decs:
        if d[0] == 0:
            out.append("DCancel %s" % gz(d[1]))
        elif d[0] == 1:
            out.append("DPlace %s %s %s %s" % (gz(d[1]), gz(d[2]), gnat(d[3]), gz(d[4])))
        elif d[0] == 2:
            out.append("DUnplaced %s" % gz(d[1]))
        else:
            raise ValueError("decision of unknown kind %r" % (d,))
    return glist(out)


def g_obs(case, r):
    return "(mkGO %s %s)" % (g_input(case, r), g_decisions(r["result"][1]))


def expected_virtual(r):
    if r["result"][0] != 0:
        return r["result"]
    return [0, [[pi, ws] for pi, ws in enumerate(r["virtual"])]]


def run_impl(cases):
    out = []
    for s in range(0, len(cases), 600):
        out += core.run_impl("greedy.py", {"cases": cases[s:s + 600]})["cases"]
    return out


# --------------------------------------------------------------------------- documented reference (Python)
def doc_key(pol, now, a, graph):
    d, rel, rem = a
    return [(d, graph), (rel,), (d - now - rem,)][pol]


def ref_virtual(case, r):
    v = []
    reset = case["preemptive"] and case["policy"] != 1
    for pi, p in enumerate(case["pools"]):
        ws = []
        for wi, w in enumerate(p["workers"]):
            ws.append([[n, (tot if reset else r["init"][pi][wi][ei][1])] for ei, (n, tot) in enumerate(w["res"])])
        v.append(ws)
    return v


def w_avail(w, n):
    return sum(a for (m, a) in w if m == n)


def w_can(w, s):
    return all(w_avail(w, n) >= q for n, q in s["req"])


def w_take(w, s):
    for n, q in s["req"]:
        rem = q
        for e in w:
            if e[0] == n:
                if e[1] >= rem:
                    e[1] -= rem
                    rem = 0
                    break
                rem -= e[1]
                e[1] = 0


def ref_schedule(case, r):
    """The documented policy: stable order by the documented key; hopeless -> cancel (EDF/FIFO with enforcement);
    first strategy, first pool that fits, first worker of it."""
    pol, now = case["policy"], case["now"]
    v = ref_virtual(case, r)
    items = list(zip(r["offered"], r["offered_attrs"]))
    items.sort(key=lambda it: doc_key(pol, now, it[1], case["tasks"][it[0]]["graph"]))
    decs = []
    for ti, a in items:
        t = case["tasks"][ti]
        if case["enforce"] and pol != 2 and a[0] < now + min(s["runtime"] for s in t["strats"]):
            decs.append([0, ti])
            continue
        done = False
        for k, s in enumerate(t["strats"]):
            for pi, ws in enumerate(v):
                hit = [w for w in ws if w_can(w, s)]
                if hit:
                    w_take(hit[0], s)
                    decs.append([1, ti, pi, k, now])
                    done = True
                    break
            if done:
                break
        if not done:
            decs.append([2, ti])
    return [0, decs], v


def py_mon_c13(case, r):
    """Pure-Python form of Model.Greedy.mon_c13 (single-worker pools): an unplaced task fits nowhere once the
    placed tasks whose documented key is <= its own are accounted for."""
    if r["result"][0] != 0 or any(len(p["workers"]) != 1 for p in case["pools"]):
        return True
    pol, now = case["policy"], case["now"]
    attrs = dict(zip(r["offered"], r["offered_attrs"]))
    decs = r["result"][1]

    def key(ti):
        return doc_key(pol, now, attrs[ti], case["tasks"][ti]["graph"])
    for d in decs:
        if d[0] != 2 or d[1] not in attrs:
            continue
        v = ref_virtual(case, r)
        for e in decs:
            if e[0] == 1 and e[1] != d[1] and e[1] in attrs and key(e[1]) <= key(d[1]):
                if not (0 <= e[2] < len(v)) or not (0 <= e[3] < len(case["tasks"][e[1]]["strats"])):
                    return False
                s = case["tasks"][e[1]]["strats"][e[3]]
                if not w_can(v[e[2]][0], s):
                    return False
                w_take(v[e[2]][0], s)
        if any(w_can(ws[0], s) for s in case["tasks"][d[1]]["strats"] for ws in v):
            return False
    return True


def fallback_search(ctx, cases, impl, tag="ref"):
    """Something is broken (proof / translator / model evaluation): look for a concrete input on which the real
    policy departs from the documented one."""
    found = False
    for i, (c, r) in enumerate(zip(cases, impl)):        # first a genuine inversion (all times compared in microseconds) ...
        if not py_mon_c13(c, r):
            ctx.violation("%s_inv%d" % (tag, i), {"stream": "S-greedy (python monitor, fallback)", "case": c, "implementation": r,
                                                  "what": "priority inversion: an unplaced task fits once only the placed tasks of "
                                                          "higher-or-equal documented priority are accounted for"})
            found = True
            break
    for i, (c, r) in enumerate(zip(cases, impl)):        # ... and the first departure from the documented policy
        ref, _ = ref_schedule(c, r)
        if ref != r["result"]:
            ctx.violation("%s_doc%d" % (tag, i), {"stream": "S-greedy (documented reference, fallback)", "case": c,
                                                  "implementation": r["result"], "documented_policy": ref,
                                                  "offered": r["offered"], "offered_attrs": r["offered_attrs"],
                                                  "what": "the real %s policy departs from the documented one (order by the "
                                                          "documented key / admission rule / first fit)" % POL[c["policy"]]})
            return True
    return found


# --------------------------------------------------------------------------- streams
def ensure_model(ctx):
    """True iff Model/Greedy.vo is built from the CURRENT Gen/Src_Greedy.v.  When the translator or the model fails,
    `make` leaves the previous .vo files on disk; evaluating cases against them would compare the implementation with
    a stale translation.  In that case the Coq streams are skipped and the pure-Python fallbacks search for an input."""
    with core.BuildLock():
        ok, log = core.make(["Model/Greedy.vo"])
    if not ok:
        for f in ("Model/Greedy.vo", "Gen/Src_Greedy.vo"):
            try:
                os.remove(os.path.join(core.COQ, f))
            except OSError:
                pass
        if not any(b.get("kind") in ("translator", "proof") for b in ctx.broken):
            ctx.broken.append({"kind": "model", "name": "Model/Greedy.v", "detail": core.first_coq_error(log)["error"][:400]})
    ctx.greedy_model_ok = ok
    return ok


def nontrivial(case, r):
    """>= 3 offered tasks and (a tie in the documented key or a task that was not placed)."""
    if r["result"][0] != 0 or len(r["offered"]) < 3:
        return False
    keys = [tuple(doc_key(case["policy"], case["now"], a, case["tasks"][ti]["graph"])) for ti, a in zip(r["offered"], r["offered_attrs"])]
    return len(set(keys)) < len(keys) or any(d[0] != 1 for d in r["result"][1])


def stream_greedy(ctx, cases, impl, name="S-greedy"):
    """Differential check: real schedule() vs the model, decisions and final virtual availability."""
    ok = True
    if not getattr(ctx, "greedy_model_ok", True):
        return False
    try:
        vi = [i for i, r in enumerate(impl) if r["result"][0] != 0 or r["virtual"] is not None]
        rest = [i for i in range(len(impl)) if i not in set(vi)]
        cs = [(g_input(cases[i], impl[i]), [impl[i]["result"], expected_virtual(impl[i])], cases[i]) for i in vi]
        mism = [(vi[k], mv) for k, mv in ctx.model_stream(name, HEADER, "ginput", "g_observe_both", cs)]
        if rest:     # no copy()/deepcopy() of the pools was seen: only the decisions can be compared
            cs = [(g_input(cases[i], impl[i]), impl[i]["result"], cases[i]) for i in rest]
            mism += [(rest[k], [mv, None]) for k, mv in ctx.model_stream(name + "-nocopy", HEADER, "ginput", "g_observe", cs)]
        for idx, mv in mism[:3]:
            dec_differs = core.norm_val(mv[0]) != core.norm_val(impl[idx]["result"])
            ctx.violation("%s_%d" % (name.replace("-", ""), idx),
                          {"stream": name, "case": cases[idx], "offered": impl[idx]["offered"],
                           "offered_attrs": impl[idx]["offered_attrs"], "init": impl[idx]["init"],
                           "implementation": impl[idx]["result"], "model": mv[0], "error": impl[idx].get("error"),
                           "implementation_virtual": impl[idx]["virtual"], "model_virtual": mv[1],
                           "what": ("%s.schedule() returns decisions different from the model's" % POL[cases[idx]["policy"]])
                           if dec_differs else
                           "availability of the policy's virtual pools after schedule() differs from the model's"})
        ok = not mism
    except core.ModelEvalError as e:
        ctx.broken.append({"kind": "correspondence", "name": name, "detail": str(e)[-600:]})
        ok = False
    return ok


def monitor(ctx, name, fn, cases, impl, sel, what):
    """Apply the Coq monitor `fn : gobs -> bool` to the implementation's decisions of the selected cases."""
    idxs = [i for i, (c, r) in enumerate(zip(cases, impl)) if r["result"][0] == 0 and sel(c, r)]
    bad_kind = [i for i in idxs if any(d[0] == 3 for d in impl[i]["result"][1])]
    for i in bad_kind[:2]:
        ctx.violation("%s_kind%d" % (name, i), {"stream": name, "case": cases[i], "implementation": impl[i]["result"],
                                                "what": "a decision that is neither a placement nor a cancellation"})
    idxs = [i for i in idxs if i not in bad_kind]
    if not getattr(ctx, "greedy_model_ok", True):
        return None
    try:
        bad = ctx.monitor_stream(name, HEADER, "gobs", fn, [g_obs(cases[i], impl[i]) for i in idxs])
    except core.ModelEvalError as e:
        ctx.broken.append({"kind": "monitor", "name": name, "detail": str(e)[-600:]})
        return None
    for b in bad[:3]:
        i = idxs[b]
        ctx.violation("%s_%d" % (name.replace("-", ""), i),
                      {"stream": name + " monitor", "case": cases[i], "offered": impl[i]["offered"],
                       "offered_attrs": impl[i]["offered_attrs"], "init": impl[i]["init"],
                       "implementation": impl[i]["result"], "what": what})
    return len(idxs)


def replay_witness(ctx, path):
    c = json.load(open(path))
    return c, run_impl([c["case"]])[0]


def run(ctx):
    ctx.fingerprint(FILES)
    ctx.translate(["Greedy", "Task", "TaskGraph"])
    ctx.build(ctx.pid, deps=["Model/Greedy.v"])
    ctx.build("C13_remaining")       # the remaining time LSF's slack subtracts, translated from Task.remaining_time
    ensure_model(ctx)
    quick = ctx.tier == "quick"
    n = 1300 if quick else 12000
    cases = []
    while len(cases) < n:
        c = gen_case(ctx.rng)
        if not f10_signature(c):
            cases.append(c)
    impl = run_impl(cases)
    ctx.rules.append(
        "S-greedy: (policy in EDF/FIFO/LSF, enforce_deadlines, preemptive, now, 1-3 pools x 1-3 workers x 1-3 resource entries "
        "over 1-3 names with totals 0-4, 2-6 released tasks + 0-3 running tasks occupying workers, 1-3 strategies each with "
        "`any` requests 0-3 on 1-2 names, deadlines/releases/slacks from small ranges so that ties are frequent, tasks spread "
        "over 1-3 graphs) -> real schedule() vs the model: decisions exactly, and final availability of the virtual pools; "
        "distinct = distinct case; non-trivial = >= 3 offered tasks and (a tie in the policy's key or a task not placed). "
        "Times: a third of the cases uses multiples of 0.5 ms, a sixth multiples of 0.5 s, and there every deadline / release / "
        "runtime / now is handed to the real classes in us, ms or s (the coarsest exact unit for half of the values), so that e.g. "
        "2 ms and 1500 us meet in one invocation; the model and the documented-key reference work in exact microseconds. 35% of the "
        "cases give all strategies ONE runtime with heterogeneous demands; 25% of the tasks get a first strategy that can never fit "
        "(50 units) before strategies that may. "
        "Inputs with the signature of known finding F10 (preemptive, >= 2 graphs, a running task) are kept out. "
        "S-greedy-wl: the first 400 (quick) / 2000 cases again, decisions vs the same policy model instantiated with the shared "
        "worker model of C04 (Model/Res.v + Worker.v).")
    seen = set()
    nt = 0
    dist = {"by_policy": {p: 0 for p in POL}, "preemptive": 0, "enforce": 0, "single_worker_pools": 0, "with_unplaced": 0,
            "with_cancel": 0, "with_key_tie": 0, "offered_ge3": 0, "mixed_units": 0, "placed_with_later_strategy": 0,
            "equal_runtimes_heterogeneous_demands": 0, "raw_magnitude_order_differs": 0}
    for c, r in zip(cases, impl):
        dist["mixed_units"] += mixed_units(c)
        rts = {s["runtime"] for t in c["tasks"] for s in t["strats"]}
        reqs = {json.dumps(s["req"]) for t in c["tasks"] for s in t["strats"]}
        dist["equal_runtimes_heterogeneous_demands"] += len(rts) == 1 and len(reqs) > 1
        f = [1, 1000, 10 ** 6]
        rel = [(t["release"], t["release"] // f[t.get("release_u", 0)]) for t in c["tasks"]]
        dist["raw_magnitude_order_differs"] += any((a[0] < b[0]) != (a[1] < b[1]) for a in rel for b in rel)
        if r["result"][0] == 0:
            dist["placed_with_later_strategy"] += any(d[0] == 1 and d[3] > 0 for d in r["result"][1])
        dist["by_policy"][POL[c["policy"]]] += 1
        dist["preemptive"] += c["preemptive"]
        dist["enforce"] += c["enforce"]
        dist["single_worker_pools"] += all(len(p["workers"]) == 1 for p in c["pools"])
        if r["result"][0] == 0:
            dist["with_unplaced"] += any(d[0] == 2 for d in r["result"][1])
            dist["with_cancel"] += any(d[0] == 0 for d in r["result"][1])
            keys = [tuple(doc_key(c["policy"], c["now"], a, c["tasks"][ti]["graph"])) for ti, a in zip(r["offered"], r["offered_attrs"])]
            dist["with_key_tie"] += len(set(keys)) < len(keys)
            dist["offered_ge3"] += len(r["offered"]) >= 3
        k = json.dumps(c, sort_keys=True)
        if k in seen:
            continue
        seen.add(k)
        nt += nontrivial(c, r)
    ctx.cov["distinct_nontrivial"] += nt
    ctx.cov["input_distribution"] = dist
    ctx.sample({"stream": "S-greedy", "case": cases[0], "implementation": impl[0]["result"], "offered": impl[0]["offered"]})
    stream_greedy(ctx, cases, impl)
    # the same policy model instantiated with the shared worker model (Model/Res.v + Worker.v) on a part of the cases
    if getattr(ctx, "greedy_model_ok", True):
        k = 400 if quick else 2000
        try:
            cs = [(g_input(c, r), r["result"], c) for c, r in zip(cases[:k], impl[:k])]
            mism = ctx.model_stream("S-greedy-wl", HEADER + "\nFrom Verif Require Import Proofs.GreedyP4.", "ginput",
                                    "g_observe_wl", cs)
            for idx, mv in mism[:3]:
                ctx.violation("Sgreedywl_%d" % idx,
                              {"stream": "S-greedy-wl", "case": cases[idx], "offered": impl[idx]["offered"],
                               "init": impl[idx]["init"], "implementation": impl[idx]["result"], "model": mv,
                               "what": "%s.schedule() differs from the policy model run over the shared worker model"
                                       % POL[cases[idx]["policy"]]})
        except core.ModelEvalError as e:
            ctx.broken.append({"kind": "correspondence", "name": "S-greedy-wl", "detail": str(e)[-600:]})
    # requests naming specific resource ids, possibly twice the same name: only the worker-model instance covers them
    ctx.rules.append(
        "S-greedy-ids: S-greedy cases whose strategies request specific resource ids of some worker, incl. `any` + a specific "
        "id or two specific ids of one name in one strategy (the cumulative fit test of Resources.__gt__ decides) -> real "
        "schedule() vs the policy model over the shared worker model: decisions and final virtual availability.")
    if getattr(ctx, "greedy_model_ok", True):
        idc = []
        while len(idc) < (500 if quick else 3000):
            c = gen_case_ids(ctx.rng)
            if not f10_signature(c):
                idc.append(c)
        idr = run_impl(idc)
        try:
            ok_i = [i for i, r in enumerate(idr) if r["result"][0] != 0 or r["virtual"] is not None]
            cs = [(g_winput(idc[i], idr[i]), [idr[i]["result"], expected_virtual(idr[i])], idc[i]) for i in ok_i]
            mism = ctx.model_stream("S-greedy-ids", HEADER + "\nFrom Verif Require Import Model.Res Model.Worker Proofs.GreedyP4.",
                                    "winput", "w_observe_both", cs)
            for k, mv in mism[:3]:
                i = ok_i[k]
                ctx.violation("Sgreedyids_%d" % i,
                              {"stream": "S-greedy-ids", "case": idc[i], "offered": idr[i]["offered"], "init": idr[i]["init"],
                               "implementation": idr[i]["result"], "implementation_virtual": idr[i]["virtual"], "model": mv,
                               "error": idr[i].get("error"),
                               "what": "%s.schedule() on requests with specific resource ids differs from the policy model over "
                                       "the shared worker model" % POL[idc[i]["policy"]]})
            ctx.cov["input_distribution"]["ids_cases"] = {
                "cases": len(idc), "errors": sum(1 for r in idr if r["result"][0] != 0),
                "with_unplaced": sum(1 for r in idr if r["result"][0] == 0 and any(d[0] == 2 for d in r["result"][1])),
                "strategies_naming_a_resource_twice": sum(1 for c in idc for t in c["tasks"] for s in t["strats"]
                                                           if len({q[0] for q in s["req"]}) < len(s["req"]))}
            ctx.cov["distinct_nontrivial"] += sum(1 for c, r in zip(idc, idr) if nontrivial(c, r))
        except core.ModelEvalError as e:
            ctx.broken.append({"kind": "correspondence", "name": "S-greedy-ids", "detail": str(e)[-600:]})
        for i, r in enumerate(idr):
            if not r["unchanged"]:
                ctx.violation("sidefx_ids%d" % i, {"stream": "S-greedy-ids", "case": idc[i], "diff": r.get("diff"),
                                                   "what": "schedule() changed the live cluster or a task"})
                break
    # the live cluster must never be touched (cheap to look at here too)
    for i, r in enumerate(impl):
        if not r["unchanged"]:
            ctx.violation("sidefx%d" % i, {"stream": "S-greedy", "case": cases[i], "diff": r.get("diff"),
                                           "what": "schedule() changed the live cluster or a task"})
            break

    # ---- monitor: independent fit check on single-worker pools, documented keys
    ctx.rules.append(
        "monitor C13 (on the implementation's own decisions, clusters with one worker per pool, extra cases generated for it): "
        "every unplaced task fits no pool for any strategy once the placed tasks whose DOCUMENTED key is <= its own are "
        "accounted for (placements on single-worker pools commute).")
    extra = []
    while len(extra) < (700 if quick else 5000):
        c = gen_case(ctx.rng, single=True)
        if not f10_signature(c):
            extra.append(c)
    impl_x = run_impl(extra)
    mc, mi = cases + extra, impl + impl_x
    nmon = monitor(ctx, "M-c13", "mon_c13", mc, mi,
                   lambda c, r: all(len(p["workers"]) == 1 for p in c["pools"]),
                   "priority inversion: an unplaced task fits once only the placed tasks of higher-or-equal documented "
                   "priority are accounted for")
    if nmon is None:
        for i, (c, r) in enumerate(zip(mc, mi)):
            if not py_mon_c13(c, r):
                ctx.violation("pyinv%d" % i, {"stream": "M-c13 (python fallback)", "case": c, "implementation": r["result"],
                                              "what": "priority inversion (documented keys, single-worker pools)"})
                break
    ctx.cov["input_distribution"]["monitor_c13_cases"] = nmon
    ctx.cov["distinct_nontrivial"] += sum(1 for c, r in zip(extra, impl_x) if nontrivial(c, r))

    # ---- corpus: witnesses kept from earlier findings / mutation trials are replayed as ordinary cases
    cdir = os.path.join(core.ROOT, "corpus", "C13")
    wit = []
    if os.path.isdir(cdir):
        for f in sorted(os.listdir(cdir)):
            if f.endswith(".json"):
                wit.append(json.load(open(os.path.join(cdir, f)))["case"])
    if wit:
        wi = run_impl(wit)
        stream_greedy(ctx, wit, wi, name="S-greedy-corpus")
        monitor(ctx, "M-c13-corpus", "mon_c13", wit, wi, lambda c, r: True, "priority inversion on a corpus witness")

    if ctx.broken and not ctx.violations:
        fallback_search(ctx, mc, mi)
