"""C14 — aggregated from its per-policy parts (see harness/parts.py)."""
import parts


def run(ctx):
    parts.run_parts(ctx, "C14", "ilp,tetri".split(","))
