"""C15 — Clockwork batching: full, same-model, loaded, on-time batches only; a request is placed at most once;
hopeless requests are cancelled.  (Also the library of the parts C10_cw and C12_cw.)"""
import core
from core import gz, glist, gbool

FILES = ["schedulers/clockwork_scheduler.py", "workers/workers.py", "workload/strategy.py", "workload/resources.py", "workload/resource.py",
         "workload/placement.py"]
TRUSTED = [
    "translator fragment Clockwork (frag_clockwork.py): admission test, expiry test, availability test, priority, sort key, "
    "Request.__lt__, get_placements guard, not-loaded test, enforce_deadlines constant, ExecutionStrategy.__eq__/__lt__ (strategy.py) are REGENERATED from "
    "clockwork_scheduler.py on every run; the surrounding control flow (loops over dict items, deque, remove_task) is a "
    "hand-written Gallina transcription tied to the code by the S-cw differential stream",
    "EventTime arithmetic/comparison is integer microsecond arithmetic (property C16)",
    "CPython dict insertion order, list.pop/remove/slicing, bisect.insort on a sorted list, sorted() as a stable sort "
    "(modelled as insertion sort; equal for comparators that are strict weak orders on the list)",
    "run_load / refresh_priorities (float demand priorities) are an oracle for WHICH profiles are loaded and evicted (the theorems "
    "hold for every LOAD/EVICT answer); the EFFECT of the answer is modelled: evictions are applied to the virtual cluster that "
    "run_inference reads (apply_load / w_evict: profile leaves the worker, its recorded resources return), a LOAD is only "
    "announced; the demand bookkeeping (floats) of add_task/remove_task is not modelled (no effect on placements when "
    "scheduler_run_load is off)",
    "Resources.__gt__ (cumulative play of the requests, /repo 402c33a) / allocate (refuses negative quantities) / __copy__ (copies cells: the copy sees the live available vector) and Worker.place_task (refuses an already placed task) / Worker.__copy__ (copies placed tasks, batch registry and loading timers) are transcribed (take_loop, res_play, alloc_loop, w_place, w_placed); their own properties belong to C04",
    "work profiles have at least one loading strategy (Model.Request.__init__ dereferences it)",
]
HEADER = "From Verif Require Import Gen.Src_Clockwork Model.Clockwork."


# ------------------------------------------------------------------ generation
def gen_history(rng, size):
    """One history: world (profiles with several batch-size strategies), cluster, tasks, script of invocations."""
    n_models = rng.choice([1, 2, 2, 3])
    names = [1, 1, 1, 2]
    world = []
    for mid in range(1, n_models + 1):
        strs, seen = [], set()
        for sid in range(1, rng.choice([1, 2, 2, 3, 3]) + 1):
            for _ in range(20):
                bs = rng.choice([1, 2, 2, 3, 4])
                rt = rng.choice([5, 10, 10, 15, 20, 30])
                res = [[rng.choice(names), 0, rng.choice([1, 1, 2])]]
                if rng.random() < 0.2:
                    n2 = 2 if res[0][0] == 1 else 1
                    res.append([n2, 0, 1])
                if rng.random() < 0.08:
                    res[0][1] = rng.choice([1, 2])          # a specific resource id
                key = (bs, rt, tuple(map(tuple, res)))
                if key not in seen:
                    seen.add(key)
                    break
            else:
                continue
            strs.append({"sid": sid, "bs": bs, "rt": rt, "res": res})
        world.append({"mid": mid, "strategies": strs})
    pools, wid = [], 0
    for pid in range(1, rng.choice([1, 1, 2]) + 1):
        ws = []
        for _ in range(rng.choice([1, 1, 2, 2, 3]) if pid == 1 else 1):
            wid += 1
            res = [[1, wid * 10 + 1, rng.choice([1, 2, 2, 3, 4])]]
            if rng.random() < 0.35:
                res.append([2, wid * 10 + 2, rng.choice([1, 2])])
            if rng.random() < 0.15:
                res.append([1, wid * 10 + 3, 1])
            if rng.random() < 0.08:
                res[0][1] = rng.choice([1, 2])
            res.append([9, wid * 10 + 9, 8])        # memory for loaded profiles (one unit each)
            loaded = []
            for m in world:
                r = rng.random()
                if r < 0.7:
                    loaded.append([m["mid"], 0])
                elif r < 0.8:
                    loaded.append([m["mid"], rng.choice([5, 50])])
            ws.append({"wid": wid, "res": res, "loaded": loaded, "settle": rng.random() < 0.7})
        pools.append({"pid": pid, "workers": ws})
    n_inv = rng.randint(1, size)
    nows = sorted(rng.sample(range(0, 60), n_inv))
    if rng.random() < 0.3:
        nows[0] = 0
    # (derived generator: the histories drawn from `rng` stay the ones drawn before this option existed)
    import random as _random
    r2 = _random.Random("same-instant/%r/%r" % (nows, n_models))
    if n_inv >= 2 and r2.random() < 0.3:
        # the policy is invoked AGAIN at the same simulated instant (new requests arrived in between)
        for k in r2.sample(range(1, n_inv), r2.choice([1, 1, 2]) if n_inv > 2 else 1):
            nows[k] = nows[k - 1]
    tasks, script = [], []
    tid = 0
    running = []
    for k, now in enumerate(nows):
        step = {"now": now, "release": [], "finish": []}
        for _ in range(rng.choice([0, 1, 2, 3, 4, 5, 6])):
            tid += 1
            m = rng.choice(world)
            rts = [s["rt"] for s in m["strategies"]]
            fast = min(rts)
            r = rng.random()
            if r < 0.12:
                dl = now + fast - rng.choice([1, 2, 7])
            elif r < 0.3:
                dl = now + fast
            elif r < 0.45:
                dl = now + rng.choice(rts)
            elif r < 0.6:
                dl = now + rng.choice(rts) + rng.choice([1, 3, 6])
            else:
                dl = now + rng.choice([25, 40, 40, 60, 100])
            tasks.append({"tid": tid, "mid": m["mid"], "deadline": max(dl, 0), "graph": rng.choice([1, 1, 2])})
            step["release"].append(tid)
        if k > 0 and rng.random() < 0.5:
            step["finish"] = "some"         # resolved below from what actually runs (decided by the implementation)
        if rng.random() < 0.15:
            w = rng.choice([w for p in pools for w in p["workers"]])
            step["load"] = [[w["wid"], rng.choice(world)["mid"], rng.choice([0, 0, 20])]]
        if rng.random() < 0.1:
            w = rng.choice([w for p in pools for w in p["workers"]])
            step["evict"] = [[w["wid"], rng.choice(world)["mid"]]]
        script.append(step)
    # finishing: any task id may be named; the adapter only finishes those that are RUNNING
    for step in script:
        if step["finish"] == "some":
            step["finish"] = [t["tid"] for t in tasks if rng.random() < 0.5]
    goal = rng.choice(["clockwork", "clockwork", "least_slack"])
    started = [m["mid"] for m in world if rng.random() < 0.5]
    rng.shuffle(started)
    return {"world": world, "goal": goal, "started": started, "pools": pools, "tasks": tasks, "script": script}


# ------------------------------------------------------------------ Gallina rendering
def g_res(vec):
    return glist(["(%s, %s, %s)" % (gz(n), gz(i), gz(q)) for n, i, q in vec])


def g_strategy(s):
    return "(mkS %s %s %s %s)" % (gz(s["sid"]), gz(s["bs"]), gz(s["rt"]), g_res(s["res"]))


def g_world(world):
    return glist(["(%s, %s)" % (gz(m["mid"]), glist([g_strategy(s) for s in m["strategies"]])) for m in world])


def g_task(t):
    return "(mkT %s %s %s)" % (gz(t["tid"]), gz(t["mid"]), gz(t["deadline"]))


def g_worker(w):
    return "(mkW %s %s %s %s %s)" % (gz(w["wid"]), g_res(w["res"]), glist(["(%s, %s)" % (gz(m), gz(a)) for m, a in w["loaded"]]),
                                      glist([gz(i) for i in w.get("placed", [])]),
                                      glist(["(%s, %s)" % (gz(m), g_res(a)) for m, a in w.get("palloc", [])]))


def g_pools(view):
    return glist(["(mkP %s %s)" % (gz(p["pid"]), glist([g_worker(w) for w in p["workers"]])) for p in view])


def load_decisions(rec):
    """the LOAD/EVICT decisions returned by the implementation, in order: [type, profile, pool, worker]"""
    return [d for d in rec["result"][1] if d[0] in (1, 2)] if rec["result"][0] == 0 else []


def g_lds(lds):
    return glist(["(%s, %s, %s, %s)" % tuple(gz(x) for x in d) for d in lds])


def g_invocation(h, rec):
    tasks = {t["tid"]: t for t in h["tasks"]}
    # run_load is an oracle for WHICH profiles are loaded/evicted; the model applies the evictions to the view itself
    load = "(Some %s)" % g_lds(load_decisions(rec)) if h.get("run_load") else "None"
    return "(mkInv %s %s %s %s)" % (gz(rec["now"]), glist([g_task(tasks[i]) for i in rec["offered"]]), g_pools(rec["view"]), load)


def g_history(h, impl):
    return "(mkH %s %s %s %s)" % (g_world(h["world"]), gbool(h["goal"] == "least_slack"),
                                  glist([gz(m) for m in h["started"]]), glist([g_invocation(h, r) for r in impl["steps"]]))


def expected(impl):
    out = [r["result"] for r in impl["steps"]]
    if not impl["steps"] or impl["steps"][-1]["result"][0] == 0:
        out.append(impl["final"])
    return out


def nontrivial(h, impl):
    """>= 2 invocations, a batch placed, and (a cancellation or an expiry or a task carried over between invocations)."""
    steps = impl["steps"]
    placed = [d for r in steps if r["result"][0] == 0 for d in r["result"][1] if d[0] == 4]
    cancelled = [d for r in steps if r["result"][0] == 0 for d in r["result"][1] if d[0] == 3]
    carried = any(set(a["offered"]) & set(b["offered"]) for a, b in zip(steps, steps[1:]))
    return len(steps) >= 2 and bool(placed) and (bool(cancelled) or carried)


def generate(ctx, n, size, mode="natural"):
    hs = [gen_history(ctx.rng, size) for _ in range(n)]
    for h in hs:
        h["mode"] = mode
        if mode == "adversarial":
            # an environment that breaks the hypothesis of C15_once: decisions are not applied / are retracted,
            # so placed requests are offered again
            for st in h["script"]:
                r = ctx.rng.random()
                if r < 0.35:
                    st["apply"] = False
                elif r < 0.6:
                    st["run"] = False
                    st["unschedule"] = [t["tid"] for t in h["tasks"] if ctx.rng.random() < 0.5]
                elif r < 0.75:
                    # placed on the live worker but never started, then retracted: the request comes back while it is
                    # still registered on the worker (Worker.place_task refuses it on the copy: ValueError)
                    st["start"] = False
                    st["unschedule"] = [t["tid"] for t in h["tasks"] if ctx.rng.random() < 0.7]
        elif mode == "tight":
            # deadlines around now + runtime of some strategy (admission / expiry / availability boundaries)
            rel = {}
            for st in h["script"]:
                for tid in st["release"]:
                    rel[tid] = st["now"]
            for t in h["tasks"]:
                rts = [x["rt"] for m in h["world"] if m["mid"] == t["mid"] for x in m["strategies"]]
                t["deadline"] = max(0, rel.get(t["tid"], 0) + ctx.rng.choice(rts) + ctx.rng.choice([-1, 0, 0, 1, 2, 5]))
        elif mode == "ties":
            # strategies of equal batch size and runtime (ordered by their Resources), equal deadlines
            for m in h["world"]:
                if len(m["strategies"]) >= 2 and ctx.rng.random() < 0.7:
                    a = m["strategies"][0]
                    b = m["strategies"][1]
                    b["bs"], b["rt"] = a["bs"], a["rt"]
                    if b["res"] == a["res"]:
                        b["res"] = [[a["res"][0][0], 0, a["res"][0][2] + 1]]
                    for c in m["strategies"][2:]:
                        if (c["bs"], c["rt"]) == (a["bs"], a["rt"]):
                            c["rt"] += 5
                    # strategies of a profile stay pairwise different as (batch size, runtime, ordered resource entries):
                    # the adapter recognises the strategy of a returned BatchStrategy (a copy) by exactly this content
                    keys = [(x["bs"], x["rt"], tuple(map(tuple, x["res"]))) for x in m["strategies"]]
                    assert len(set(keys)) == len(keys), keys
            for t in h["tasks"]:
                t["deadline"] = (t["deadline"] // 20) * 20 + 10
        elif mode == "load":
            h["run_load"] = True
            # memory pressure: the workers of the first pool (the only one run_load looks at) have exactly as much memory
            # (resource 9, one unit per loaded profile) as they have profiles loaded, all of them usable, and at least one
            # profile of the world is not loaded: a request for it forces an eviction, and the victims keep their queues
            for w in h["pools"][0]["workers"]:
                if ctx.rng.random() < 0.8 and len(h["world"]) >= 2:
                    mids = [m["mid"] for m in h["world"]]
                    ctx.rng.shuffle(mids)
                    keep = mids[:ctx.rng.randint(1, len(mids) - 1)]
                    w["loaded"] = [[m, 0] for m in sorted(keep)]
                    w["settle"] = True
                    w["res"] = [e for e in w["res"] if e[0] != 9] + [[9, w["wid"] * 10 + 9, len(keep)]]
            for st in h["script"]:
                st.pop("load", None)
                st.pop("evict", None)
        elif mode == "sim":
            # the REAL Simulator is the environment: requests are released by its event loop, placements are applied,
            # run and completed by it, and it decides when schedule() is called
            rel = {}
            for st in h["script"]:
                for tid in st["release"]:
                    rel[tid] = st["now"]
            for t in h["tasks"]:
                t["release"] = rel.get(t["tid"], 0)
            h["script"] = []
            h["frequency"] = ctx.rng.choice([-1, 2, 3, 5, 8])
            h["max_inv"] = 16 if size <= 4 else 24
            h["loop_timeout"] = 160
    out = core.run_impl("clockwork.py", {"histories": hs})["histories"]
    return hs, out


def corpus(prefix="seed_"):
    """histories kept in corpus/C15 (failing inputs of earlier mutation trials, witnesses of findings)"""
    import glob
    import json
    import os
    out = []
    for f in sorted(glob.glob(os.path.join(core.ROOT, "corpus", "C15", prefix + "*.json"))):
        h = json.load(open(f))
        h["file"] = os.path.basename(f)
        out.append(h)
    return out


def run_corpus(ctx, stream="S-cw-corpus"):
    hs = corpus()
    if not hs:
        return
    impls = core.run_impl("clockwork.py", {"histories": hs})["histories"]
    getters_monitor(ctx, hs, impls, stream + ":getters")
    strip(hs, impls)
    try:
        correspondence(ctx, hs, impls, stream)
    except core.ModelEvalError as e:
        ctx.broken.append({"kind": "correspondence", "name": stream, "detail": str(e)[-600:]})
    monitors(ctx, hs, impls, stream, once=True)


def stats(ctx, hs, impls):
    seen, nt = set(), 0
    dist = {"histories": len(hs), "invocations": 0, "placed": 0, "cancelled": 0, "batches": 0, "errors": 0, "least_slack": 0,
            "multi_strategy_models": 0, "getters_changed": 0, "load_or_evict_decisions": 0}
    for h, im in zip(hs, impls):
        k = repr(h)
        for r in im["steps"]:
            dist["invocations"] += 1
            if r["result"][0] == 0:
                ds = r["result"][1]
                dist["placed"] += sum(d[0] == 4 for d in ds)
                dist["cancelled"] += sum(d[0] == 3 for d in ds)
                dist["batches"] += len({d[6] for d in ds if d[0] == 4})
                dist["load_or_evict_decisions"] += sum(d[0] in (1, 2) for d in ds)
            else:
                dist["errors"] += 1
            dist["getters_changed"] += not r["unchanged"]
        # does the environment ever offer a request that was placed by an earlier invocation? (hypothesis of C15_once)
        done = set()
        for r in im["steps"]:
            dist["offers_of_already_placed_requests"] = dist.get("offers_of_already_placed_requests", 0) + len(done & set(r["offered"]))
            if r["result"][0] == 0:
                done |= {d[1] for d in r["result"][1] if d[0] == 4}
        dist["least_slack"] += h["goal"] == "least_slack"
        dist["multi_strategy_models"] += sum(len(m["strategies"]) > 1 for m in h["world"])
        if k in seen:
            continue
        seen.add(k)
        nt += nontrivial(h, im)
    return nt, dist


def correspondence(ctx, hs, impls, stream="S-cw"):
    cases = [(g_history(h, im), expected(im), h) for h, im in zip(hs, impls)]
    mism = ctx.model_stream(stream, HEADER, "history", "cw_observe", cases, shard=60)
    for idx, mv in mism[:3]:
        ctx.violation("%s_%d" % (stream.replace("-", ""), idx),
                      {"stream": stream, "history": hs[idx], "implementation": expected(impls[idx]), "model": mv,
                       "observed_inputs": [{"now": r["now"], "offered": r["offered"], "view": r["view"]} for r in impls[idx]["steps"]],
                       "what": "ClockworkScheduler.schedule() decisions / final queues differ from the model"})
    return mism


# ------------------------------------------------------------------ monitors on the implementation's observations
def batches_of(ds):
    """placements of one invocation grouped into batches, in order of first appearance"""
    out, ix = [], {}
    for d in ds:
        if d[0] != 4:
            continue
        key = d[6]
        if key not in ix:
            ix[key] = len(out)
            out.append({"pool": d[3], "worker": d[4], "sid": d[5] if isinstance(d[5], int) else -1, "time": d[2], "tasks": []})
        out[ix[key]]["tasks"].append(d[1])
    return out


def g_oinv(h, rec):
    tasks = {t["tid"]: t for t in h["tasks"]}
    ds = rec["result"][1]
    bs = ["(mkOB %s %s %s %s %s)" % (gz(b["pool"]), gz(b["worker"]), gz(b["sid"]), gz(b["time"]), glist([g_task(tasks[i]) for i in b["tasks"]]))
          for b in batches_of(ds)]
    # the cluster as it was offered (before run_load): the monitors do not follow what run_load did to its copy
    return "(mkOI %s %s %s %s %s %s)" % (gz(rec["now"]), glist([g_task(tasks[i]) for i in rec["offered"]]), g_pools(rec["view"]),
                                        glist([gz(d[1]) for d in ds if d[0] == 3]), glist(bs), g_lds(load_decisions(rec)))


def evicted_at_end(lds, mid, pid, wid):
    cur = False
    for ty, m, p, w in lds:
        if (m, p, w) == (mid, pid, wid):
            cur = True if ty == 1 else (False if ty == 2 else cur)
    return cur


def g_obs(h, impl):
    return "(%s, %s)" % (g_world(h["world"]), glist([g_oinv(h, r) for r in impl["steps"] if r["result"][0] == 0]))


def py_monitor(h, impl, once=True):
    """Reference monitor in Python (names the clause that fails; also the fallback when the Coq model cannot be evaluated)."""
    tasks = {t["tid"]: t for t in h["tasks"]}
    world = {m["mid"]: m["strategies"] for m in h["world"]}
    bad, placed_all = [], []
    for k, r in enumerate(impl["steps"]):
        if r["result"][0] != 0:
            continue
        now, ds = r["now"], r["result"][1]

        def hopeless(i):
            t = tasks[i]
            return t["deadline"] < now + min(s["rt"] for s in world[t["mid"]])
        cancelled = [d[1] for d in ds if d[0] == 3]
        if cancelled != [i for i in r["offered"] if hopeless(i)]:
            bad.append("inv%d: cancellations are not exactly the hopeless offered requests" % k)
        placed = []
        workers = {(p["pid"], w["wid"]): w for p in r["view"] for w in p["workers"]}
        lds = load_decisions(r)
        for b in batches_of(ds):
            ts = [tasks[i] for i in b["tasks"]]
            placed += b["tasks"]
            mids = {t["mid"] for t in ts}
            if len(mids) != 1:
                bad.append("inv%d: batch mixes models" % k)
                continue
            mid = mids.pop()
            st = [s for s in world[mid] if s["sid"] == b["sid"]]
            if not st:
                bad.append("inv%d: batch strategy is not a strategy of the model" % k)
                continue
            st = st[0]
            if len(ts) != st["bs"]:
                bad.append("inv%d: batch of %d requests under a strategy of batch size %d" % (k, len(ts), st["bs"]))
            w = workers.get((b["pool"], b["worker"]))
            if w is None or [mid, 0] not in w["loaded"]:
                bad.append("inv%d: batch on a worker that does not exist or has not loaded the model" % k)
            if any(now + st["rt"] > t["deadline"] for t in ts):
                bad.append("inv%d: now + runtime is after the deadline of a member of the batch" % k)
            if b["time"] < now:
                bad.append("inv%d: placement before now" % k)
            if evicted_at_end(lds, mid, b["pool"], b["worker"]):
                bad.append("inv%d: batch of model %d on worker %d, from which the same invocation evicts that model" % (k, mid, b["worker"]))
        if len(set(cancelled + placed)) != len(cancelled + placed):
            bad.append("inv%d: two decisions for one request" % k)
        if any(i not in r["offered"] for i in cancelled + placed):
            bad.append("inv%d: decision for a request that was not offered" % k)
        if any(hopeless(i) for i in placed):
            bad.append("inv%d: a hopeless request was placed" % k)
        placed_all += placed
    if once and len(set(placed_all)) != len(placed_all):
        bad.append("a request was placed twice over the run")
    return bad


def monitors(ctx, hs, impls, stream, once=True, tag="mon"):
    """mon_history (or its per-invocation part) on what the implementation returned; returns #failing histories."""
    fn = "(fun p => mon_history (fst p) (snd p))" if once else "(fun p => forallb (mon_invocation (fst p)) (snd p))"
    cases = [g_obs(h, im) for h, im in zip(hs, impls)]
    try:
        bad = ctx.monitor_stream(stream, HEADER, "world * list oinv", fn, cases, shard=60)
    except core.ModelEvalError as e:
        ctx.broken.append({"kind": "monitor", "name": stream, "detail": str(e)[-600:]})
        bad = [i for i, (h, im) in enumerate(zip(hs, impls)) if py_monitor(h, im, once)]
    for b in bad[:3]:
        ctx.violation("%s_%s%d" % (stream.replace("-", ""), tag, b),
                      {"stream": stream + " monitor", "history": hs[b],
                       "observed": [{"now": r["now"], "offered": r["offered"], "view": r["view"], "result": r["result"]}
                                    for r in impls[b]["steps"]],
                       "failing_clauses": py_monitor(hs[b], impls[b], once),
                       "what": "the decisions returned by the real ClockworkScheduler violate the monitored property"})
    return bad


def getters_monitor(ctx, hs, impls, stream):
    """cluster and task getters before/after every schedule() call, compared inside Coq"""
    def flat(v, out):
        # nested integers -> flat integer list with (marker, length) prefixes: injective, cheap to parse
        if isinstance(v, list):
            out += [-99, len(v)]
            for x in v:
                flat(x, out)
        else:
            out.append(int(v))
        return out

    def zl(xs):
        return "[" + ";".join(str(x) if x >= 0 else "(%d)" % x for x in xs) + "]"
    cases, where = [], []
    for hi, im in enumerate(impls):
        for k, r in enumerate(im["steps"]):
            cases.append("(%s, %s)" % (zl(flat(r["getters"][0], [])), zl(flat(r["getters"][1], []))))
            where.append((hi, k))
    try:
        bad = ctx.monitor_stream(stream, HEADER, "list Z * list Z", "(fun p => zlist_eqb (fst p) (snd p))", cases, shard=30)
    except core.ModelEvalError as e:
        ctx.broken.append({"kind": "monitor", "name": stream, "detail": str(e)[-600:]})
        bad = [i for i, (hi, k) in enumerate(where) if not impls[hi]["steps"][k]["unchanged"]]
    for b in bad[:3]:
        hi, k = where[b]
        g0, g1 = impls[hi]["steps"][k]["getters"]
        ctx.violation("getters%d" % b, {"stream": stream, "history": hs[hi], "invocation": k,
                                         "changed_getters": [[x, y] for x, y in zip(g0, g1) if x != y][:5],
                                         "what": "schedule() changed the live cluster or a task (getter values before/after differ)"})
    return bad


def starts_monitor(ctx, hs, impls, stream):
    """every placement starts at or after now and at or after the known release of its request"""
    cases, where = [], []
    for hi, im in enumerate(impls):
        for k, r in enumerate(im["steps"]):
            for (tid, start, rel) in r.get("starts", []):
                cases.append("(%s, %s, %s)" % (gz(r["now"]), gz(start), gz(rel)))
                where.append((hi, k, tid))
    if not cases:
        return []
    bad = ctx.monitor_stream(stream, HEADER, "Z * Z * Z",
                             "(fun p => let '(now, start, rel) := p in andb (now <=? start) (rel <=? start))", cases, shard=2000)
    for b in bad[:3]:
        hi, k, tid = where[b]
        ctx.violation("start%d" % b, {"stream": stream, "history": hs[hi], "invocation": k, "task": tid, "now_start_release": cases[b],
                                       "what": "a placement starts before now or before the release of its request"})
    return bad


def strip(hs, impls):
    """drop the bulky getter snapshots once they were checked"""
    for im in impls:
        for r in im["steps"]:
            r.pop("getters", None)


RULE = ("S-cw: histories of 1..%d schedule() invocations of the real ClockworkScheduler on real Workload/WorkerPools objects: "
        "1-3 models with 1-3 strategies (batch sizes 1-4, several runtimes, any/specific resource ids), 1-3 workers in 1-2 pools with "
        "partial loading states, requests arriving at every invocation with deadlines past / exactly tight / loose, placed tasks are "
        "applied to the live cluster and finish later, both goals; variants: tight (deadline = now + a strategy runtime +-1), ties "
        "(strategies of equal batch size and runtime, equal deadlines), adversarial (decisions not applied / retracted, so placed "
        "requests come back), load (scheduler_run_load on under memory pressure: workers hold exactly as much memory as profiles loaded, so a request for an unloaded profile forces evictions while the victims keep queued batches; the LOAD/EVICT answer is given to the model, which applies the evictions itself), sim (the real Simulator event loop is the "
        "environment: it releases, places, runs and completes the requests and decides when schedule() runs; up to 16 (quick) / 24 "
        "invocations); the model receives what the implementation "
        "was offered and saw; distinct = distinct history; non-trivial = >= 2 invocations, a batch placed, and a cancellation or a "
        "request carried over")


def evaluate(ctx, groups, label, getters=False, starts=False):
    """One round per kind of check over all the histories of all variants (+ the corpus): the generated Coq files of a round
    are compiled in parallel, so few big rounds cost much less wall time than many small ones."""
    seeds = corpus()
    if seeds:
        groups = groups + [("corpus", seeds, core.run_impl("clockwork.py", {"histories": seeds})["histories"])]
    hs = [h for _, g, _ in groups for h in g]
    impls = [im for _, _, g in groups for im in g]
    if getters:
        getters_monitor(ctx, hs, impls, label + ":getters")
    if starts:
        starts_monitor(ctx, hs, impls, label + ":starts")
    strip(hs, impls)
    try:
        correspondence(ctx, hs, impls, label)
    except core.ModelEvalError as e:
        ctx.broken.append({"kind": "correspondence", "name": label, "detail": str(e)[-600:]})
    nat = [(h, im) for m, g, gi in groups if m != "adversarial" for h, im in zip(g, gi)]
    adv = [(h, im) for m, g, gi in groups if m == "adversarial" for h, im in zip(g, gi)]
    if nat:
        monitors(ctx, [x[0] for x in nat], [x[1] for x in nat], label, once=True)
    if adv:
        monitors(ctx, [x[0] for x in adv], [x[1] for x in adv], label + "-adversarial", once=False)
    ctx.cov["streams"][label]["by_variant"] = {m: len(g) for m, g, _ in groups}


def run(ctx):
    ctx.fingerprint(FILES)
    ctx.translate(["Clockwork"])
    built = ctx.build("C15", deps=["Model/Clockwork.v"])
    quick = ctx.tier == "quick"
    size = 4 if quick else 6
    plan = [("natural", 130 if quick else 2000), ("tight", 60 if quick else 800), ("ties", 50 if quick else 600),
            ("adversarial", 45 if quick else 500), ("load", 30 if quick else 300), ("sim", 15 if quick else 200)]
    ctx.rules.append(RULE % size)
    dist_all, groups = {}, []
    for mode, n in plan:
        hs, impls = generate(ctx, n, size, mode)
        strip(hs, impls)
        nt, dist = stats(ctx, hs, impls)
        ctx.cov["distinct_nontrivial"] += nt
        dist_all[mode] = dist
        if mode == "natural":
            ctx.sample({"stream": "S-cw", "history": hs[0], "implementation": expected(impls[0])})
        groups.append((mode, hs, impls))
    ctx.cov["input_distribution"] = dist_all
    evaluate(ctx, groups, "S-cw")
    return built
