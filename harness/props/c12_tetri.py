"""C12 (TetriSched part) — deadline enforcement in the space-time formulations: no plan read back
from ANY assignment misses a deadline, a hopeless task has no variable cell at all, and the CPLEX
scheduler's admission control cancels exactly the hopeless tasks."""
import core
from core import gz, glist
from props import c10_tetri as T

TRUSTED = T.TRUSTED
PROPS = "C12_tetri"


def run(ctx):
    built = T.prepare(ctx, PROPS)
    ng, nc = T.sizes(ctx)
    worlds = T.generate(ctx, ng, nc, force={"enforce": True})
    seen = {T.world_key(w) for w in worlds}
    for k in range(30 if ctx.tier == "quick" else 200):      # runs of adjacent hopeless tasks, both back-ends (2 of 3 CPLEX)
        w = T.hopeless_run_world(ctx.rng, "gurobi" if k % 3 == 0 else "cplex")
        if T.world_key(w) not in seen:
            seen.add(T.world_key(w))
            worlds.append(w)
    results = T.run_worlds(worlds, probe=T.probe_spec(ctx, ["c12"]))
    ctx.rules.append("adversarial probes: the live model is re-optimised to maximise the lateness (start + runtime - deadline) of one "
                     "placed task; every assignment found goes through the deadline monitor")
    ctx.rules.append(
        "worlds as in C10_tetri with enforce_deadlines on: deadlines past (now-2), exactly tight (now + runtime of one "
        "strategy), loose; 1-2 strategies so that only the faster one may meet the deadline; both back-ends; distinct = "
        "distinct world JSON; non-trivial = some offered task is hopeless or has a strategy/slot pair excluded by its deadline "
        "while another task or strategy is placed; plus worlds with runs of 2-3 ADJACENT hopeless released tasks next to healthy "
        "ones, where every hopeless task must be answered with CANCEL_TASK by the CPLEX back end (left unplaced by Gurobi)")

    def nontrivial(w, r):
        inst = r["inst"]
        excl = False
        for t in inst["tasks"]:
            if t["state"][0] == "running":
                continue
            if any(inst["now"] + s[0] > t["deadline"] for s in t["strats"]):
                excl = True
        return excl and any(p["placed"] for p in (r.get("placements") or []))
    T.coverage(ctx, worlds, results, nontrivial)
    for w, r in list(zip(worlds, results))[:2]:
        ctx.sample({"world": w, "placements": r.get("placements")})
    T.scheduler_errors(ctx, worlds, results)
    T.stream_csys(ctx, worlds, results)
    T.stream_readback(ctx, worlds, results)
    T.monitor_plans(ctx, worlds, results, "M-deadline", "(fun p => deadlines_c12b (fst p) (snd p))",
                    "a task was placed with a start and strategy whose completion is after its deadline although enforce_deadlines is on")
    # hopeless tasks: never placed; CPLEX: cancelled, and nothing else is cancelled
    T.monitor_hopeless(ctx, worlds, results)
    if ctx.broken:
        T.py_monitor_fallback(ctx, worlds, results)
