"""C12 (TetriSched part) — deadline enforcement in the space-time formulations: no plan read back
from ANY assignment misses a deadline, a hopeless task has no variable cell at all, and the CPLEX
scheduler's admission control cancels exactly the hopeless tasks."""
import core
from core import gz, glist
from props import c10_tetri as T

TRUSTED = T.TRUSTED
PROPS = "C12_tetri"


def run(ctx):
    built = T.prepare(ctx, PROPS)
    ng, nc = T.sizes(ctx)
    worlds = T.generate(ctx, ng, nc, force={"enforce": True})
    results = T.run_worlds(worlds, probe=T.probe_spec(ctx, ["c12"]))
    ctx.rules.append("adversarial probes: the live model is re-optimised to maximise the lateness (start + runtime - deadline) of one "
                     "placed task; every assignment found goes through the deadline monitor")
    ctx.rules.append(
        "worlds as in C10_tetri with enforce_deadlines on: deadlines past (now-2), exactly tight (now + runtime of one "
        "strategy), loose; 1-2 strategies so that only the faster one may meet the deadline; both back-ends; distinct = "
        "distinct world JSON; non-trivial = some offered task is hopeless or has a strategy/slot pair excluded by its deadline "
        "while another task or strategy is placed")

    def nontrivial(w, r):
        inst = r["inst"]
        excl = False
        for t in inst["tasks"]:
            if t["state"][0] == "running":
                continue
            if any(inst["now"] + s[0] > t["deadline"] for s in t["strats"]):
                excl = True
        return excl and any(p["placed"] for p in (r.get("placements") or []))
    T.coverage(ctx, worlds, results, nontrivial)
    for w, r in list(zip(worlds, results))[:2]:
        ctx.sample({"world": w, "placements": r.get("placements")})
    T.scheduler_errors(ctx, worlds, results)
    T.stream_csys(ctx, worlds, results)
    T.stream_readback(ctx, worlds, results)
    T.monitor_plans(ctx, worlds, results, "M-deadline", "(fun p => deadlines_c12b (fst p) (snd p))",
                    "a task was placed with a start and strategy whose completion is after its deadline although enforce_deadlines is on")
    # hopeless tasks: never placed; CPLEX: cancelled, and nothing else is cancelled
    cases = []
    where = []
    for i, (w, r) in enumerate(zip(worlds, results)):
        if r.get("placements") is None or r.get("error"):
            continue
        now = w["now"]
        offered = {}
        for g in w["graphs"]:
            for t in g["tasks"]:
                offered[t["name"] + "@" + g["name"]] = t
        for p in r["placements"]:
            t = offered[p["task"]]
            hopeless = t["deadline"] < now + min(s[0] for s in t["strats"])
            # (deadline, now, fastest, placed, cancelled, cplex)
            cases.append("(%s, %s, %s, %s, %s, %s)" % (gz(t["deadline"]), gz(now), gz(min(s[0] for s in t["strats"])),
                                                       core.gbool(bool(p["placed"])), core.gbool(p["type"] == "CANCEL_TASK"),
                                                       core.gbool(w["cfg"]["flavour"] == "cplex")))
            where.append((i, p["task"]))
    if cases:
        try:
            bad = ctx.monitor_stream("M-hopeless", T.HEADER, "Z * Z * Z * bool * bool * bool",
                                     "(fun q => match q with (d, n, f, placed, cancelled, cplex) => hopeless_answer_okb d n f placed cancelled cplex end)",
                                     cases)
            for b in bad[:3]:
                i, name = where[b]
                ctx.violation("hopeless%d" % i, {"stream": "M-hopeless", "world": worlds[i], "task": name,
                                                 "placements": results[i]["placements"],
                                                 "what": "a hopeless task (deadline < now + fastest runtime) was placed / not cancelled by the CPLEX "
                                                         "admission control, or a task that is not hopeless was cancelled"})
        except core.ModelEvalError as e:
            ctx.broken.append({"kind": "monitor", "name": "M-hopeless", "detail": str(e)[-800:]})
    if ctx.broken:
        T.py_monitor_fallback(ctx, worlds, results)
