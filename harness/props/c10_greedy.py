"""C10, greedy part (EDF / FIFO / LSF): every decision list is complete, feasible and side-effect free.

A PART module: `run(ctx)` is called by the C10 check (or stand-alone as `./check C10_greedy`); everything is
reported through ctx (ctx.pid), nothing is hard-coded to an id.
"""
import json
import os

import core
from props import c13 as G

FILES = G.FILES + ["workload/workload.py", "workload/tasks.py"]
TRUSTED = G.TRUSTED + [
    "side-effect freedom: the model's schedule is a function of its arguments; on the implementation every getter of the "
    "pools, workers, resources and tasks is compared before/after the call (same process, by name)",
]
EXPLANATION = ("Greedy part of C10: theorems in Props/C10_greedy.v (contract, replay = final virtual cluster, feasibility invariant, first fit, copy mode, F10 refutation); the Coq monitor contract_check (proved equivalent to the Contract Prop) runs on the implementation's decisions with the documented copy mode; side effects are looked for by comparing every getter before/after; F10-signature inputs live in a stream of their own (model still predicts the duplicated decisions exactly).")
PROPS_FILE = "C10_greedy"
F10_WHAT = ("preemptive EDF/LSF with >= 2 task graphs: each graph's get_schedulable_tasks appends all resident tasks, so a "
            "running task is offered once per graph and is decided twice, or (since /repo 17757a8) schedule() raises when the "
            "second placement hits the pool that already holds it (workload/tasks.py:1186-1190, workload/workload.py:296-311)")


def has_dup(r):
    ids = [d[1] for d in r["result"][1]] if r["result"][0] == 0 else []
    return len(ids) != len(set(ids))


def run(ctx):
    ctx.fingerprint(FILES)
    ctx.translate(["Greedy"])
    ctx.build(PROPS_FILE, deps=["Model/Greedy.v"])
    G.ensure_model(ctx)
    quick = ctx.tier == "quick"
    n = 900 if quick else 9000
    cases = []
    while len(cases) < n:
        c = G.gen_case(ctx.rng)
        if not G.f10_signature(c):
            cases.append(c)
    impl = G.run_impl(cases)
    ctx.rules.append(
        "C10-greedy: the S-greedy inputs (mixtures of released and running tasks on partially occupied heterogeneous pools, "
        "EDF/FIFO/LSF, with/without preemption and enforcement) -> (a) decisions equal the model's, (b) Coq monitor "
        "contract_check on the implementation's decisions: one decision per offered task and no other, each placement names "
        "an existing pool, a strategy of its task, time = now, and replaying the placements in order on the virtual cluster "
        "(copy: live availability; deepcopy: totals) fits at every step, (c) every getter of the live cluster and of the tasks "
        "unchanged by schedule(); distinct = distinct case; non-trivial = >= 3 offered tasks and (key tie or a task not placed).")
    seen = set()
    nt = 0
    for c, r in zip(cases, impl):
        k = json.dumps(c, sort_keys=True)
        if k not in seen:
            seen.add(k)
            nt += G.nontrivial(c, r)
    ctx.cov["distinct_nontrivial"] += nt
    dist = ctx.cov.setdefault("input_distribution", {})
    dist["c10_greedy"] = {"cases": len(cases), "preemptive": sum(c["preemptive"] for c in cases),
                          "with_resident": sum(1 for r in impl if r["resident"]),
                          "errors": sum(1 for r in impl if r["result"][0] != 0)}
    ctx.sample({"stream": "C10-greedy", "case": cases[1], "implementation": impl[1]["result"]})
    G.stream_greedy(ctx, cases, impl, name="S-greedy-c10")
    nmon = G.monitor(ctx, "M-contract", "mon_contract", cases, impl, lambda c, r: True,
                     "the returned decisions break the contract (one decision per offered task, existing pool, own strategy, "
                     "time = now, jointly feasible when replayed in order)")
    for i, r in enumerate(impl):
        if not r["unchanged"]:
            ctx.violation("sidefx%d" % i, {"stream": "C10-greedy side effects", "case": cases[i], "diff": r.get("diff"),
                                           "what": "schedule() changed the live cluster or a task (getters before/after differ)"})
            break
        if r["result"][0] == 0 and any(rel > cases[i]["now"] for (_, rel, _) in r["offered_attrs"]):
            ctx.violation("early%d" % i, {"stream": "C10-greedy", "case": cases[i],
                                          "what": "a task released after now was offered and answered"})
            break
    if nmon is None:     # Coq monitor unavailable: pure-Python contract (subset: completeness, names, time)
        for i, (c, r) in enumerate(zip(cases, impl)):
            if r["result"][0] != 0:
                continue
            ids = [d[1] for d in r["result"][1]]
            bad = (sorted(ids) != sorted(r["offered"]) or len(set(ids)) != len(ids)
                   or any(d[0] == 1 and (not 0 <= d[2] < len(c["pools"]) or not 0 <= d[3] < len(c["tasks"][d[1]]["strats"])
                                         or d[4] != c["now"]) for d in r["result"][1]))
            if bad:
                ctx.violation("pycontract%d" % i, {"stream": "M-contract (python fallback)", "case": c,
                                                   "implementation": r["result"], "offered": r["offered"]})
                break

    # ---- known finding F10: inputs with its signature, in a stream of their own
    f10 = []
    while len(f10) < (150 if quick else 1500):
        c = G.gen_case(ctx.rng, allow_f10=True, force_policy=ctx.rng.choice([0, 2]))
        if G.f10_signature(c):
            f10.append(c)
    kdir = os.path.join(core.ROOT, "corpus", "C13", "known")
    wits = []
    for f in ("F10.json", "F10b.json"):
        if os.path.exists(os.path.join(kdir, f)):
            wits.append((f, json.load(open(os.path.join(kdir, f)))["case"]))
    fi = G.run_impl([w for _, w in wits] + f10)
    wrs, fi = fi[:len(wits)], fi[len(wits):]
    symptoms = []
    for (f, w), wr in zip(wits, wrs):
        dup_offer = len(set(wr["offered"])) != len(wr["offered"])
        if dup_offer and has_dup(wr):
            symptoms.append("%s: two decisions for one task %s" % (f, wr["result"][1]))
        elif dup_offer and wr["result"] == [1, 3]:
            symptoms.append("%s: schedule() raises ValueError (task already placed on the pool)" % f)
        else:
            ctx.violation("F10_gone_%s" % f[:-5],
                          {"what": "the recorded witness of known finding F10 no longer shows its symptom (a running task offered "
                                   "twice, hence decided twice or refused by place_task); remove the exclusion of its input signature",
                           "case": w, "implementation": wr["result"], "offered": wr["offered"]}, no_input=True)
    if symptoms:
        ctx.known("F10", "%s; witnesses in corpus/C13/known replayed: %s" % (F10_WHAT, "; ".join(symptoms)))
    G.stream_greedy(ctx, [w for _, w in wits], wrs, name="S-greedy-f10-witness")
    # the model given the (duplicated) offered list still predicts the decisions exactly
    G.stream_greedy(ctx, f10, fi, name="S-greedy-f10")
    dups = sum(1 for r in fi if has_dup(r))
    # outside the signature's effect (no duplicate offered) the contract must hold even here
    G.monitor(ctx, "M-contract-f10", "mon_contract", f10, fi, lambda c, r: len(set(r["offered"])) == len(r["offered"]),
              "contract broken on an input without duplicated offers")
    for c, r in zip(f10, fi):
        if r["result"] == [1, 3] and len(set(r["offered"])) == len(r["offered"]):
            ctx.violation("raise_no_f10", {"stream": "C10-greedy F10", "case": c, "implementation": r["result"],
                                           "error": r.get("error"), "what": "schedule() raises although no task was offered twice"})
            break
        if r["result"][0] == 0 and has_dup(r) and len(set(r["offered"])) == len(r["offered"]):
            ctx.violation("dup_no_f10", {"stream": "C10-greedy F10", "case": c, "implementation": r["result"],
                                         "what": "two decisions for one task although it was offered once"})
            break
    dist["c10_greedy"]["f10_stream"] = {"cases": len(f10), "with_duplicate_decisions": dups,
                                        "raising_already_placed": sum(1 for r in fi if r["result"] == [1, 3])}
    if ctx.broken and not ctx.violations:
        G.fallback_search(ctx, cases, impl, tag="c10ref")
