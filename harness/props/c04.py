"""C04 — resource ledger conservation (and the worker/pool half of C01: demand <= capacity)."""
import glob
import itertools
import json
import os

import core
from core import gz, glist, gopt, gbool, gval

FILES = ["workload/resource.py", "workload/resources.py", "workers/workers.py", "workload/strategy.py", "simulator.py"]
TRUSTED = [
    "hand-written Gallina model Model/Res.v + Model/Worker.v of Resource/Resources/Worker/WorkerPool(s) (not generated "
    "from source): tied to /repo on every run by the differential stream S-ledger, which compares after EVERY operation "
    "the public getters AND the private ledger cells of every live object (originals and copies)",
    "CPython dict (insertion order, lookup by __hash__ then __eq__), set, defaultdict and copy.copy/deepcopy dispatch are "
    "modelled, not verified; the second-level `_scheduler` of WorkerPool is out of scope (None in every configuration of /repo)",
    "the Task half of Worker.step (stepping RUNNING tasks) belongs to the Task/Sim model; here tasks are never RUNNING",
    "monitors read the private cells `_resource_vector` / `_current_allocations` / `_placed_tasks` of the implementation "
    "through the adapter harness/impl/ledger.py in addition to the public getters",
]
EXPLANATION = None
HDR = "From Verif Require Import Model.Res Model.Worker."
CORPUS = os.path.join(core.ROOT, "corpus", "C04")


# --------------------------------------------------------------------------------------------
# Gallina rendering
# --------------------------------------------------------------------------------------------
def g_key(k):
    return "(%s, %s)" % (gz(k[0]), "RAny" if k[1] is None else "RId %s" % gz(k[1]))


def g_vec(v):
    return glist(["(%s, %s)" % (g_key(k), gz(q)) for k, q in v])


def g_strat(s):
    return "(mkStrat %s %s %s %s %s)" % (gz(s["id"]), gbool(s["batch"]), g_vec(s["req"]), gz(s["bsize"]), gz(s["runtime"]))


def g_comp(c):
    return "(%s %s)" % (["CTask", "CBatch", "CProf"][c[0]], gz(c[1]))


def g_worker(w, base):
    return "(w_rebase %s (w_new %s %s))" % (gz(base), gz(w[0]), g_vec(w[1]))


def g_objs(objs):
    out = []
    base = 0
    for o in objs:
        if o[0] == "res":
            out.append("ORes (r_new %s)" % g_vec(o[1]))
        elif o[0] == "worker":
            out.append("OWorker %s" % g_worker([o[1], o[2]], base))
            base += 1000
        else:
            ws = []
            for w in o[2]:
                ws.append(g_worker(w, base))
                base += 1000
            out.append("OPool (p_new %s %s)" % (gz(o[1]), glist(ws)))
    return glist(out)


def g_cmd(c, S):
    k = c[0]
    if k == "copy":
        return "CCopy %d" % c[1]
    if k == "deepcopy":
        return "CDeepCopy %d" % c[1]
    op = c[2]
    if k == "res":
        if op[0] == "alloc":
            g = "RAllocate %s %s %s" % (g_key(op[1]), g_comp(op[2]), gz(op[3]))
        elif op[0] == "allocm":
            g = "RAllocateMultiple %s %s" % (g_vec(op[1]), g_comp(op[2]))
        elif op[0] == "dealloc":
            g = "RDeallocate %s" % g_comp(op[1])
        else:
            g = "RGetAllocated %s" % g_comp(op[1])
        return "CRes %d (%s)" % (c[1], g)
    if k == "worker":
        if op[0] == "place":
            g = "WPlace %s %s" % (gz(op[1]), g_strat(S[op[2]]))
        elif op[0] == "remove":
            g = "WRemove %s" % gz(op[1])
        elif op[0] == "load":
            g = "WLoad %s %s" % (gz(op[1]), g_strat(S[op[2]]))
        elif op[0] == "evict":
            g = "WEvict %s" % gz(op[1])
        elif op[0] == "step":
            g = "WStep %s" % gz(op[1])
        else:
            g = "WGetAllocated %s" % gz(op[1])
        return "CWorker %d (%s)" % (c[1], g)
    if op[0] == "place":
        g = "PPlace %s %s %s %s" % (gz(op[1]), glist([g_strat(S[s]) for s in op[2]]),
                                    gopt(op[3], lambda s: g_strat(S[s])), gopt(op[4], gz))
    elif op[0] == "remove":
        g = "PRemove %s" % gz(op[1])
    elif op[0] == "load":
        g = "PLoad %s %s %s" % (gz(op[1]), g_strat(S[op[2]]), gopt(op[3], gz))
    elif op[0] == "evict":
        g = "PEvict %s %s" % (gz(op[1]), gopt(op[2], gz))
    else:
        g = "PStep %s" % gz(op[1])
    return "CPool %d (%s)" % (c[1], g)


def g_case(case):
    S = {s["id"]: s for s in case["strats"]}
    probes = "(mkProbes %s %s %s %s)" % (glist([g_key(k) for k in case["keys"]]),
                                         glist([g_strat(s) for s in case["strats"]]),
                                         glist([gz(p) for p in case["profs"]]),
                                         glist([gz(t) for t, _ in case["tasks"]]))
    return "(%s, %s, %s)" % (probes, g_objs(case["objs"]), glist([g_cmd(c, S) for c in case["cmds"]]))


def k_of_obs(k):
    """key as observed ([name, [] | [id]]) -> [name, None | id]"""
    return [k[0], None if k[1] == [] else k[1][0]]


def g_obs_vec(v):
    return g_vec([[k_of_obs(k), q] for k, q in v])


def g_obs_allocs(a):
    return glist(["(%s, %s)" % (g_comp(c), g_obs_vec(l)) for c, l in a])


def g_getters(keys, getters):
    return glist(["(%s, (%s, %s, %s, %s))" % (g_key(k), gz(g[0]), gz(g[1]), gz(g[2]), gz(g[3]))
                  for k, g in zip(keys, getters)])


# --------------------------------------------------------------------------------------------
# generators
# --------------------------------------------------------------------------------------------
def gen_vector(rng, names, odd):
    v = []
    for n in names:
        r = rng.random()
        if r < 0.3:
            cells = [None]
        elif odd and r < 0.45:
            cells = [None] + list(range(rng.randint(1, 2)))
            rng.shuffle(cells)
        else:
            cells = list(range(rng.randint(1, 3)))
        for i in cells:
            v.append([[n, i], rng.choice([0, 1, 1, 2, 2, 3])])
    if rng.random() < 0.3:
        rng.shuffle(v)
    return v


def gen_request(rng, names, odd):
    """a request vector: dict keys are distinct (name, id) pairs"""
    n = rng.choice([0, 1, 1, 1, 2, 2, 3]) if odd else rng.choice([1, 1, 1, 1, 2, 2, 3])
    keys = []
    for _ in range(n):
        nm = rng.choice(names + ([9] if rng.random() < 0.05 else []))
        i = None if rng.random() < 0.6 else rng.randrange(3)
        if [nm, i] not in keys:
            keys.append([nm, i])
    qs = [0, 1, 1, 1, 2, 2, 3] + ([-1] if odd and rng.random() < 0.2 else [])
    return [[k, rng.choice(qs)] for k in keys]


def competing_request(rng, vec):
    """a request that is refused HALF-WAY on the vector: the `any` entry (served first) drains the units that the entry
    for a specific unit then needs — the rollback path of allocate_multiple"""
    spec = [(k, q) for k, q in vec if k[1] is not None and q > 0]
    if not spec:
        return None
    (n, i), _q = rng.choice(spec)
    total = sum(q for k, q in vec if k[0] == n)
    return [[[n, None], max(1, total - rng.choice([0, 0, 1]))], [[n, i], 1]]


def gen_case(rng, maxcmds, kinds=("res", "worker", "pool"), odd=None):
    if odd is None:
        odd = rng.random() < 0.35       # inputs outside the hypotheses of the theorems (correspondence only)
    names = list(range(rng.randint(1, 3)))
    strats = []
    for i in range(rng.randint(3, 5)):
        strats.append({"id": i, "batch": rng.random() < 0.4, "req": gen_request(rng, names, odd),
                       "bsize": rng.choice([0, 1, 2, 2, 3]), "runtime": rng.choice([0, 1, 2, 5])})
    sids = [s["id"] for s in strats]
    tasks = [[t, rng.sample(sids, rng.randint(1, 2))] for t in range(4)]
    profs = [0, 1]
    objs = []
    nw = 0
    for _ in range(rng.choice([1, 1, 1, 2])):
        k = rng.choice(kinds)
        if k == "res":
            objs.append(["res", gen_vector(rng, names, odd)])
        elif k == "worker":
            objs.append(["worker", nw, gen_vector(rng, names, odd)])
            nw += 1
        else:
            ws = []
            for _ in range(rng.randint(1, 3)):
                ws.append([nw, gen_vector(rng, names, odd)])
                nw += 1
            objs.append(["pool", len(objs), ws])
    # a strategy whose request is refused half-way on one of the vectors (rollback with and without earlier holdings)
    vecs = [o[1] if o[0] == "res" else o[2] if o[0] == "worker" else o[2][0][1] for o in objs]
    comp_req = competing_request(rng, rng.choice(vecs)) if rng.random() < 0.6 else None
    if comp_req is not None:
        strats.append({"id": len(strats), "batch": False, "req": comp_req, "bsize": 1, "runtime": rng.choice([1, 2, 5])})
        sids.append(strats[-1]["id"])
    keys = []
    for n in names:
        keys += [[n, None], [n, 0], [n, 1], [n, 2]]
    case = {"keys": keys, "strats": strats, "tasks": tasks, "profs": profs, "objs": objs, "cmds": [], "odd": odd,
            "cleanup": True}
    kinds_now = [o[0] for o in objs]
    wids = {}
    for i, o in enumerate(objs):
        if o[0] == "pool":
            wids[i] = [w[0] for w in o[2]]
    placed = [set() for _ in objs]      # optimistic residency, only to bias the choice of operations
    loaded = [set() for _ in objs]
    held = [set() for _ in objs]
    for _ in range(rng.randint(3, maxcmds)):
        if len(kinds_now) < 4 and rng.random() < 0.12:
            i = rng.randrange(len(kinds_now))
            kind = rng.choice(["copy", "copy", "deepcopy"])
            case["cmds"].append([kind, i])
            kinds_now.append(kinds_now[i])
            placed.append(set(placed[i]) if kind == "copy" else set())
            loaded.append(set(loaded[i]) if kind == "copy" else set())
            held.append(set(held[i]) if kind == "copy" else set())
            if i in wids:
                wids[len(kinds_now) - 1] = wids[i]
            continue
        i = rng.randrange(len(kinds_now))
        k = kinds_now[i]
        r = rng.random()

        def pick(pool_, inside, p_in):
            cand = [x for x in pool_ if (x in inside) == (rng.random() < p_in)]
            return rng.choice(cand) if cand else rng.choice(pool_)
        if k == "res":
            comps = [(0, 0), (0, 1), (0, 2), (1, 0), (1, 1), (2, 0), (2, 1)]
            if r < 0.3:
                comp = list(rng.choice(comps))
                key = [rng.choice(names), None if rng.random() < 0.5 else rng.randrange(3)]
                op = ["alloc", key, comp, rng.choice([0, 1, 1, 2, 3] + ([-1] if odd else []))]
                held[i].add(tuple(comp))
            elif r < 0.62:
                comp = list(rng.choice(comps))
                req = gen_request(rng, names, odd)
                if comp_req is not None and rng.random() < 0.35:
                    # refused half-way, preferably for a computation that already holds something
                    req = comp_req
                    if held[i] and rng.random() < 0.7:
                        comp = list(rng.choice(sorted(held[i])))
                op = ["allocm", req, comp]
                held[i].add(tuple(comp))
            elif r < 0.95 or not odd:
                comp = list(pick(comps, held[i], 0.85))
                op = ["dealloc", comp]
                held[i].discard(tuple(comp))
            else:
                op = ["getalloc", list(rng.choice(comps))]
        elif k == "worker":
            if r < 0.42:
                t = pick(range(4), placed[i], 0.08 if not odd else 0.3)
                op = ["place", t, rng.choice(sids)]
                placed[i].add(t)
            elif r < 0.68:
                t = pick(range(4), placed[i], 0.85)
                op = ["remove", t]
                placed[i].discard(t)
            elif r < 0.79:
                p = pick(range(2), loaded[i], 0.08 if not odd else 0.3)
                op = ["load", p, rng.choice(sids)]
                loaded[i].add(p)
            elif r < 0.88:
                p = pick(range(2), loaded[i], 0.85)
                op = ["evict", p]
                loaded[i].discard(p)
            elif r < 0.97 or not odd:
                op = ["step", rng.choice([1, 1, 2, 3])]
            else:
                op = ["getalloc", rng.randrange(4)]
        else:
            def wid():
                x = rng.random()
                return None if x < 0.5 else (7 if x < 0.55 else rng.choice(wids[i]))
            if r < 0.45:
                t = pick(range(4), placed[i], 0.08 if not odd else 0.3)
                op = ["place", t, tasks[t][1], rng.choice(sids) if rng.random() < 0.7 else None, wid()]
                placed[i].add(t)
            elif r < 0.72:
                t = pick(range(4), placed[i], 0.85)
                op = ["remove", t]
                placed[i].discard(t)
            elif r < 0.82:
                op = ["load", rng.randrange(2), rng.choice(sids), wid()]
            elif r < 0.9:
                op = ["evict", rng.randrange(2), wid()]
            else:
                op = ["step", rng.choice([1, 1, 2, 3])]
        case["cmds"].append([k, i, op])
    return case


# --------------------------------------------------------------------------------------------
# reading the implementation's observations
# --------------------------------------------------------------------------------------------
def workers_of(obs):
    """worker observations inside an object observation"""
    if obs[0] == 1:
        return [obs[1]]
    if obs[0] == 2:
        return obs[1][0]
    return []


def placed_of(wobs):
    return [t for t, _ in wobs[1]]


def profiles_of(wobs):
    return wobs[3] + wobs[4]


def has_batch(wobs, S):
    return any(S[sid]["batch"] for _, sid in wobs[1])


def public(obs):
    """the part of an observation the property speaks about (public getters)"""
    if obs[0] == 0:
        r = obs[1]
        return [0, r[0], r[1], r[2]]
    if obs[0] == 1:
        return [1] + public_worker(obs[1])
    if obs[0] == 2:
        p = obs[1]
        return [2, [public_worker(w) for w in p[0]], p[1], p[2], p[3], p[4]]
    return obs


def public_worker(w):
    r = w[0]
    return [[r[0], r[1], r[2]], placed_of(w), w[2], w[3], w[4], w[5], w[6]]


def no_positive(req):
    return not any(q > 0 for _, q in req)


def positive_nonneg(case):
    return all(q >= 0 for s in case["strats"] for _, q in s["req"])


def wf_vector(v):
    def match(a, b):
        return a[0] == b[0] and (a[1] is None or b[1] is None or a[1] == b[1])
    return all(q >= 0 for _, q in v) and not any(match(v[i][0], v[j][0]) for i in range(len(v)) for j in range(i))


def vectors_of(o):
    return [o[1]] if o[0] == "res" else ([o[2]] if o[0] == "worker" else [w[1] for w in o[2]])


def case_in_hypotheses(case):
    """the static part of the theorems' hypotheses: since /repo 0f42ab1 only `the configured quantities are
    non-negative` is left (mixed vectors, negative or empty requests, re-placements, getters are all covered)"""
    return all(q >= 0 for o in case["objs"] for v in vectors_of(o) for _, q in v)


class Mon:
    """collects monitor inputs (Gallina text) with the place they come from"""

    def __init__(self):
        self.items = {"M-worker": [], "M-res": [], "M-same": [], "M-full": [], "M-pool": []}
        self.where = {k: [] for k in self.items}

    def add(self, stream, text, where):
        self.items[stream].append(text)
        self.where[stream].append(where)


def g_wobs(case, tot, w):
    S = {s["id"]: s for s in case["strats"]}
    names = sorted({k[0] for k in case["keys"]})
    r = w[0]
    allocs = [[c, l] for c, l in r[3]]
    placed = glist(["(%s, %s)" % (gz(t), g_strat(S[sid])) for t, sid in w[1]])
    profs = glist(["(%s, %s)" % (gz(p), g_obs_vec(req)) for p, req in w[9]])
    return "(mkWobs %s %s %s %s %s %s %s)" % (glist([gz(n) for n in names]), g_vec(tot), g_obs_vec(r[4]),
                                              g_obs_allocs(allocs), g_getters(case["keys"], r[0]), placed, profs)


def g_robs(case, tot, r):
    return "(%s, %s, %s, %s)" % (g_vec(tot), g_obs_vec(r[4]), g_obs_allocs(r[3]), g_getters(case["keys"], r[0]))


def g_full(tot, r):
    return "(%s, %s, %s)" % (g_vec(tot), g_obs_vec(r[4]), g_obs_allocs(r[3]))


def g_pool_placed(p):
    return "(%s, %s)" % (glist(["(%s, %s)" % (gz(t), gz(w)) for t, w in p[1]]),
                         glist(["(%s, %s)" % (gz(wid), glist([gz(t) for t in placed_of(w)])) for wid, w in p["_wl"]]))


def analyse(ci, case, run, mon, stats):
    """walk one implementation run; decide where the theorems' hypotheses hold and emit monitor inputs"""
    if not case_in_hypotheses(case):
        stats["outside_hypotheses"] += 1
        return
    stats["inside_hypotheses"] += 1
    S = {s["id"]: s for s in case["strats"]}
    obs = run["obs"]
    nobj = len(case["objs"])
    tots = [vectors_of(o) for o in case["objs"]]
    wid_lists = [([w[0] for w in o[2]] if o[0] == "pool" else None) for o in case["objs"]]
    taint = [False] * nobj
    root = list(range(nobj))
    prev = obs[0]

    def emit_obj(i, o, where):
        if o[0] == 0:
            mon.add("M-res", g_robs(case, tots[i][0], o[1]), where)
        elif o[0] in (1, 2):
            for j, w in enumerate(workers_of(o)):
                mon.add("M-worker", g_wobs(case, tots[i][j], w), where)
            if o[0] == 2:
                d = {1: o[1][1], "_wl": list(zip(wid_lists[i], o[1][0]))}
                mon.add("M-pool", g_pool_placed(d), where)

    for i in range(nobj):
        emit_obj(i, prev[i], [ci, 0, i])
    for k, c in enumerate(case["cmds"]):
        code, cur = obs[k + 1]
        where = [ci, k + 1]
        if c[0] in ("copy", "deepcopy"):
            i = c[1]
            n = len(cur) - 1
            tots.append(tots[i])
            wid_lists.append(wid_lists[i])
            root.append(root[i])
            if cur[n][0] == 3:
                taint.append(True)
                if not taint[i]:       # a copy of a well-formed object must not raise
                    mon.add("M-same", "(%s, %s)" % (gval([0]), gval([cur[n][1]])), where + ["copy-raised"])
            elif c[0] == "copy":
                taint.append(taint[i])
                if not taint[n]:
                    mon.add("M-same", "(%s, %s)" % (gval(public(prev[i])), gval(public(cur[n]))), where + ["copy-same-getters"])
                    emit_obj(n, cur[n], where + [n])
            else:
                taint.append(False)
                mon.add("M-same", "(%s, %s)" % (gval(public(obs[0][root[i]])), gval(public(cur[n]))), where + ["deepcopy-initial"])
                emit_obj(n, cur[n], where + [n])
            # the original is unchanged by being copied
            mon.add("M-same", "(%s, %s)" % (gval(prev[:n]), gval(cur[:n])), where + ["copy-leaves-original"])
            prev = cur
            continue
        i = c[1]
        op = c[2]
        before = prev[i]
        # ---- dynamic part of the hypotheses: fresh placements / loads, requests that record something
        if op[0] == "load":        # finding FG (not repaired): a profile loaded where it is already loaded
            p = op[1]
            ws = workers_of(before)
            if c[0] == "pool" and op[3] is not None:
                ws = [w for wid, w in zip(wid_lists[i], ws) if wid == op[3]]
            if any(p in profiles_of(w) for w in ws):
                taint[i] = True
        # FD2: the pool-wide evict is not atomic; FD3: a batch strategy used as loading strategy
        poolwide = c[0] == "pool" and op[-1] is None and len(wid_lists[i]) >= 2 and \
            (op[0] == "evict" or (op[0] == "load" and S[op[2]]["batch"]))
        # ---- monitors
        if not taint[i]:
            emit_obj(i, cur[i], where + [i])
            if code != 0 and not poolwide:
                mon.add("M-same", "(%s, %s)" % (gval(before), gval(cur[i])), where + ["refusal-changes-nothing"])
        if not (op[0] == "step" and run["shared"][k]):
            others_b = [x for j, x in enumerate(prev) if j != i]
            others_a = [x for j, x in enumerate(cur) if j != i]
            if others_b:
                mon.add("M-same", "(%s, %s)" % (gval(others_b), gval(others_a)), where + ["independence"])
        prev = cur
    # ---- removing everything restores full capacity
    final = run.get("final")
    if final is not None:
        for i, o in enumerate(final):
            if taint[i] or o[0] == 3:
                continue
            where = [ci, "cleanup", i]
            if any(x != 0 for x in run["cleanup"][i]):
                mon.add("M-same", "(%s, %s)" % (gval([0] * len(run["cleanup"][i])), gval(run["cleanup"][i])),
                        where + ["removal-of-a-resident-refused"])
                continue
            if o[0] == 0:
                mon.add("M-full", g_full(tots[i][0], o[1]), where)
            else:
                for j, w in enumerate(workers_of(o)):
                    mon.add("M-full", g_full(tots[i][j], w[0]), where)
                    if placed_of(w) or profiles_of(w):
                        mon.add("M-same", "(%s, %s)" % (gval([]), gval(placed_of(w) + profiles_of(w))), where + ["still-resident"])
    stats["tainted_objects"] += sum(taint)
    stats["objects"] += len(taint)


MON_FN = {"M-worker": ("wobs", "check_wobs"), "M-res": ("rvec * rvec * allocs * list (rkey * (Z * Z * Z * Z))", "check_res_obs"),
          "M-same": ("val * val", "check_same"), "M-full": ("rvec * rvec * allocs", "check_full_all"),
          "M-pool": ("list (Z * Z) * list (Z * list Z)", "(fun x => check_pool_placed (fst x) (snd x))")}


def run_monitors(ctx, cases, mon, tag):
    for stream, texts in mon.items.items():
        if not texts:
            continue
        ty, fn = MON_FN[stream]
        # identical observations are evaluated once (first occurrence is reported)
        first = {}
        for i, t in enumerate(texts):
            first.setdefault(t, i)
        uniq = sorted(first.values())
        ubad = ctx.monitor_stream("%s%s" % (stream, tag), HDR, ty, fn, [texts[i] for i in uniq], shard=300)
        ctx.cov["streams"]["%s%s:monitor" % (stream, tag)]["observations_before_dedup"] = len(texts)
        bad = [uniq[b] for b in ubad]
        for b in bad[:2]:
            w = mon.where[stream][b]
            case = cases[w[0]]
            upto = len(case["cmds"]) if w[1] == "cleanup" else w[1]
            ctx.violation("%s_%d" % (stream.replace("-", ""), b),
                          {"monitor": stream, "what": MON_WHAT[stream], "where": w,
                           "case": dict(case, cmds=case["cmds"][:upto]), "observation": texts[b][:3000]})


MON_WHAT = {
    "M-worker": "a worker of the implementation violates the ledger invariant: available + allocated != configured total for a "
                "cell, a negative cell, an allocation held by a computation that is not resident (or a resident without its "
                "allocation), or demand > capacity (C01)",
    "M-res": "a Resources object of the implementation violates conservation (cells or public getters)",
    "M-same": "two observations that must be equal differ (see the last element of `where`: a refused request changed the "
              "state / a copy does not have the getters of its original / a deep copy is not the initial state / an operation "
              "on one object changed another / removing a resident was refused)",
    "M-full": "after removing every resident the worker is not back at its configured capacity",
    "M-pool": "the pool's task map disagrees with its workers, or a task is resident on two workers",
}


# --------------------------------------------------------------------------------------------
# known findings: witnesses in corpus/C04, replayed on the implementation on every run
# --------------------------------------------------------------------------------------------
def objs_at(obs, k):
    return obs[0] if k == 0 else obs[k][1]


def still_fails(w, run):
    """does the implementation still show the behaviour recorded in the witness?"""
    obs = run["obs"]
    k = w["kind"]
    n = len(obs) - 1
    last = objs_at(obs, n)
    codes = [o[0] for o in obs[1:]]
    if k == "replace-resident":          # allocation left behind although nothing is resident
        wk = last[0][1]
        return wk[1] == [] and wk[0][3] != []
    if k == "replace-resident-pool":     # the task is gone from the pool but still resident on a worker
        p = last[0][1]
        return p[1] == [] and any(placed_of(x) for x in p[0])
    if k == "empty-request":             # the resident task cannot be removed
        return codes[-1] == 1 and placed_of(last[0][1]) != []
    if k == "mixed-vector-copy":         # copy raises
        return codes[-1] == 1
    if k == "mixed-vector-copy-getters":  # the copy answers a getter differently
        return public(last[0])[1] != public(last[1])[1]
    if k in ("pool-wide-evict", "pool-load-batch"):   # refused, but the first worker changed
        return codes[-1] in (1, 2) and objs_at(obs, n)[0][1][0][0] != objs_at(obs, n - 1)[0][1][0][0]
    if k == "pool-wide-load":            # refused, but the first worker changed
        return codes[-1] == 1 and objs_at(obs, n)[0][1][0][0] != objs_at(obs, n - 1)[0][1][0][0]
    if k == "timer-aliasing":            # stepping the copy changed the original
        return objs_at(obs, n)[0] != objs_at(obs, n - 1)[0]
    if k == "copy-drops-batch":          # can_accomodate differs between original and copy
        return last[0][1][2] != last[1][1][2]
    if k == "double-load":               # a pending profile without allocation
        wk = last[0][1]
        return wk[4] != [] and wk[0][3] == []
    if k == "fit-refused":               # can_accomodate_strategy said yes, place_task raised
        return codes[-1] == 1 and objs_at(obs, n - 1)[0][1][2][0] == 1
    if k == "negative-quantity":
        return any(q < 0 for _, q in last[0][1][4])
    raise ValueError(k)


def replay_corpus(ctx):
    files = sorted(glob.glob(os.path.join(CORPUS, "F*.json")))
    if not files:
        return
    ws = [json.load(open(f)) for f in files]
    runs = core.run_impl("ledger.py", {"cases": [w["case"] for w in ws]})["runs"]
    # the model must show the same behaviour (the refuted lemmas are about exactly these witnesses)
    mcases = [(g_case(w["case"]), r["obs"], w["id"]) for w, r in zip(ws, runs)]
    mism = ctx.model_stream("S-ledger-corpus", HDR, "world_case", "world_obs", mcases, shard=60)
    for idx, mv in mism[:3]:
        ctx.violation("corpus%d" % idx, {"stream": "S-ledger-corpus", "witness": ws[idx]["id"], "case": ws[idx]["case"],
                                          "implementation": runs[idx]["obs"], "model": mv,
                                          "what": "model and implementation disagree on a recorded witness"})
    for w, r in zip(ws, runs):
        if w.get("fixed"):               # a repaired finding: the witness is a regression case
            if still_fails(w, r):
                ctx.violation("regression_%s" % w["id"], {"what": "a finding that was fixed in /repo (%s) shows again: %s"
                                                                   % (w["fixed"], w["what"]),
                                                           "case": w["case"], "implementation": r["obs"]})
            continue
        if still_fails(w, r):
            ctx.known(w["id"], w["what"])
        else:
            ctx.broken.append({"kind": "finding-gone", "name": w["id"],
                               "detail": "the witness of %s no longer shows the recorded behaviour on the implementation: "
                                         "the refuted lemma %s no longer describes /repo" % (w["id"], w.get("lemma"))})


# --------------------------------------------------------------------------------------------
# exhaustive short histories (thorough tier)
# --------------------------------------------------------------------------------------------
def exhaustive_cases(maxlen, limit=None):
    """all histories of length <= maxlen over one worker with a 2x2 vector (two names, two instances each)"""
    vec = [[[0, 0], 1], [[0, 1], 1], [[1, 0], 1], [[1, 1], 2]]
    strats = [{"id": 0, "batch": False, "req": [[[0, None], 1]], "bsize": 1, "runtime": 2},
              {"id": 1, "batch": False, "req": [[[0, None], 1], [[0, 0], 1]], "bsize": 1, "runtime": 2},   # competing keys
              {"id": 2, "batch": True, "req": [[[1, None], 2], [[0, 1], 1]], "bsize": 2, "runtime": 1}]
    alphabet = []
    for t in (0, 1):
        for s in (0, 1, 2):
            alphabet.append(["worker", 0, ["place", t, s]])
        alphabet.append(["worker", 0, ["remove", t]])
    alphabet += [["worker", 0, ["load", 0, 0]], ["worker", 0, ["evict", 0]], ["worker", 0, ["step", 1]], ["copy", 0],
                 ["worker", 1, ["place", 1, 2]], ["worker", 1, ["remove", 0]]]
    keys = [[0, None], [0, 0], [0, 1], [1, None], [1, 0], [1, 1]]
    out = []
    for n in range(1, maxlen + 1):
        for h in itertools.product(alphabet, repeat=n):
            nobj = 1
            ok = True
            for c in h:
                if c[0] == "copy":
                    nobj += 1
                    if nobj > 2:
                        ok = False
                elif c[1] >= nobj:
                    ok = False
            if not ok:
                continue
            out.append({"keys": keys, "strats": strats, "tasks": [[0, [0, 1]], [1, [2, 0]]], "profs": [0],
                        "objs": [["worker", 0, vec]], "cmds": [list(c) for c in h], "odd": False, "cleanup": True})
            if limit and len(out) >= limit:
                return out
    return out


# --------------------------------------------------------------------------------------------
# end-to-end runs: whenever no task is placed, every live worker is back at full capacity
# --------------------------------------------------------------------------------------------
def sim_idle_stream(ctx, n):
    """Whole simulations of /repo (adapter harness/impl/sim.py and generator harness/simgen.py of the S-sim
    checks, used read-only): class-level wrappers record, after every Worker.place_task / remove_task on the
    live cluster, (allocated, total) per resource name through the public getters, and every clock step records
    the placed tasks.  Greedy policies only (no profile loading); worlds carrying the input signature of a
    finding of another property (zero runtime, closed loop) are left out."""
    try:
        import simgen
    except ImportError as e:                      # the S-sim machinery is not there: nothing is claimed for this stream
        ctx.cov["input_distribution"]["sim_idle"] = {"skipped": "harness/simgen.py not importable: %s" % e}
        return
    worlds = []
    while len(worlds) < n:
        w = simgen.gen_world(ctx.rng, policy=ctx.rng.choice(["EDF", "FIFO", "LSF"]), conditionals=ctx.rng.random() < 0.5)
        if simgen.signature(w):
            continue
        w["wall_limit"] = 6
        worlds.append(w)
    try:
        runs = core.run_impl("sim.py", {"worlds": worlds}, timeout=900)["runs"]
    except Exception as e:                       # noqa: BLE001 - the adapter belongs to another check
        ctx.cov["input_distribution"]["sim_idle"] = {"skipped": "sim adapter failed: %s" % str(e)[-300:]}
        return
    idle_items, idle_where, use_items, use_where = [], [], [], []
    stats = {"worlds": len(worlds), "ended": 0, "idle_instants": 0, "usage_observations": 0, "not_evaluated": 0}
    for wi, (w, r) in enumerate(zip(worlds, runs)):
        ended = r.get("status") == "ended"
        if r.get("status") == "adapter-error" or not r.get("log"):
            stats["not_evaluated"] += 1
            continue
        stats["ended"] += ended          # a run that did not end is still monitored at every clock step it reached
        latest = {}
        try:
            for li, e in enumerate(r["log"]):
                if e[0] == "worker" and e[1] in ("place", "remove") and e[5] == "ok":
                    latest[e[2]] = e[6]
                    use_items.append(glist(["(%s, %s)" % (gz(a), gz(t)) for _, a, t in e[6]]))
                    use_where.append([wi, li])
                elif e[0] == "step" and not any(x[2] == "RUNNING" for x in e[4]) and latest:
                    for wn, u in sorted(latest.items()):
                        idle_items.append(glist(["(%s, %s)" % (gz(a), gz(t)) for _, a, t in u]))
                        idle_where.append([wi, li, wn])
                    stats["idle_instants"] += 1
            state = {x[0]: x[1] for x in r.get("final", [])}
            for wn, u, placed in (r.get("idle", []) if ended else []):
                if not any(state.get(t) == "RUNNING" for t in placed):
                    idle_items.append(glist(["(%s, %s)" % (gz(a), gz(t)) for _, a, t in u]))
                    idle_where.append([wi, "end", wn])
        except (IndexError, KeyError, TypeError, ValueError) as e:
            stats["not_evaluated"] += 1
            stats["format_problem"] = str(e)[:200]
    stats["usage_observations"] = len(use_items)
    ctx.cov["input_distribution"]["sim_idle"] = stats
    ctx.rules.append("S-sim-idle: whole simulations (EDF/FIFO/LSF, generated clusters x DAG workloads x release patterns x flags) "
                     "through the real Simulator; monitor check_usage after every place/remove on the live cluster and check_idle "
                     "(allocated = 0 for every resource of every worker) at every clock step at which no placed task is RUNNING and at the end")
    ctx.cov["distinct_nontrivial"] += stats["idle_instants"] and stats["ended"]
    for name, items, where, fn, what in (
            ("M-sim-usage", use_items, use_where, "check_usage", "a live worker reports allocated < 0 or allocated > total during a simulation"),
            ("M-sim-idle", idle_items, idle_where, "check_idle", "no task is running but a live worker is not back at full capacity (resources leaked by the simulation)")):
        if not items:
            continue
        first = {}
        for i, t in enumerate(items):
            first.setdefault(t, i)
        uniq = sorted(first.values())
        ubad = ctx.monitor_stream(name, HDR, "list (Z * Z)", fn, [items[i] for i in uniq], shard=2000)
        ctx.cov["streams"]["%s:monitor" % name]["observations_before_dedup"] = len(items)
        bad = [uniq[b] for b in ubad]
        for b in bad[:2]:
            ctx.violation("%s_%d" % (name.replace("-", ""), b), {"monitor": name, "what": what, "where": where[b],
                                                                   "world": worlds[where[b][0]], "usage": items[b]})


# --------------------------------------------------------------------------------------------
def _t(ctx, name):
    import time
    now = time.time()
    ctx.cov.setdefault("stage_seconds", {})[name] = round(now - getattr(ctx, "_tlast", ctx.t0), 1)
    ctx._tlast = now


def run(ctx):
    ctx.fingerprint(FILES)
    built = ctx.build("C04", deps=["Model/Worker.v"])
    _t(ctx, "build")
    quick = ctx.tier == "quick"
    n = 300 if quick else 3000
    cases = [gen_case(ctx.rng, 10 if quick else 14) for _ in range(n)]
    runs = core.run_impl("ledger.py", {"cases": cases})["runs"]
    impl = [r["obs"] for r in runs]
    _t(ctx, "impl-ledger")
    ctx.rules.append("S-ledger: histories of allocate/allocate_multiple/deallocate/get_allocated_resources on Resources, "
                     "place (plain, batch)/remove/load/evict/step/get_allocated_resources on Worker, place (all branches)/"
                     "remove/load/evict/step on WorkerPool, copy/deepcopy of any of them, on 1-3 resource names x 1-3 "
                     "instances (`any` cells and `any`/specific/absent requests, zero quantities, competing request keys, mixed "
                     "any+specific vectors, negative quantities, re-placing a resident task, get_allocated_resources on a "
                     "stranger); after every operation "
                     "every live object is observed (getters + ledger cells); distinct = distinct (objects, history); "
                     "non-trivial = at least one refused and one accepted operation")
    seen = set()
    nt = 0
    opk = {}
    for c, o in zip(cases, impl):
        for cmd in c["cmds"]:
            kk = cmd[0] if cmd[0] in ("copy", "deepcopy") else "%s.%s" % (cmd[0], cmd[2][0])
            opk[kk] = opk.get(kk, 0) + 1
        key = json.dumps([c["objs"], c["cmds"], c["strats"]])
        if key in seen:
            continue
        seen.add(key)
        codes = [x[0] for x in o[1:]]
        if any(x > 0 or x == -1 for x in codes) and any(x == 0 for x in codes):
            nt += 1
    ctx.cov["distinct_nontrivial"] += nt
    ctx.cov["input_distribution"] = {"ops_by_kind": opk, "outcomes": _hist([x[0] for o in impl for x in o[1:]])}
    ctx.sample({"stream": "S-ledger", "case": {k: cases[0][k] for k in ("objs", "cmds")},
                "outcomes": [x[0] for x in impl[0][1:]]})
    model_ok = True
    try:
        mcases = [(g_case(c), o, c) for c, o in zip(cases, impl)]
        mism = ctx.model_stream("S-ledger", HDR, "world_case", "world_obs", mcases, shard=60)
        for idx, mv in mism[:3]:
            ctx.violation("ledger%d" % idx, {"stream": "S-ledger", "case": cases[idx],
                                              "implementation": impl[idx], "model": mv,
                                              "what": "Resources/Worker/WorkerPool observations differ from the model"})
    except core.ModelEvalError as e:
        model_ok = False
        ctx.broken.append({"kind": "correspondence", "name": "S-ledger", "detail": str(e)[-600:]})

    _t(ctx, "S-ledger")
    # ---------------- monitors on the implementation's own observations
    mon = Mon()
    stats = {"inside_hypotheses": 0, "outside_hypotheses": 0, "tainted_objects": 0, "objects": 0}
    for ci, (c, r) in enumerate(zip(cases, runs)):
        analyse(ci, c, r, mon, stats)
    ctx.cov["input_distribution"]["monitors"] = dict(stats, **{k: len(v) for k, v in mon.items.items()})
    ctx.rules.append("monitors (Gallina booleans check_wobs / check_res_obs / check_full_all / check_pool_placed / check_same) "
                     "are applied to the implementation's observations of every case inside the theorems' hypotheses, after "
                     "every operation: conservation per cell and per getter against the CONFIGURED totals, no negative cell, "
                     "every allocation held by a resident and every resident holding exactly its request, demand <= capacity, "
                     "a refused request changes nothing, operations on one object leave the others unchanged, a copy has the "
                     "getters of its original, a deep copy those of the initial state, removing every resident restores full capacity")
    try:
        run_monitors(ctx, cases, mon, "")
    except core.ModelEvalError as e:
        ctx.broken.append({"kind": "monitor", "name": "C04 monitors", "detail": str(e)[-600:]})
        py_fallback(ctx, cases, runs)

    _t(ctx, "monitors")
    # ---------------- recorded findings
    try:
        replay_corpus(ctx)
    except core.ModelEvalError as e:
        ctx.broken.append({"kind": "correspondence", "name": "S-ledger-corpus", "detail": str(e)[-600:]})

    _t(ctx, "corpus")
    # ---------------- end-to-end runs
    _run_sim_idle(ctx)
    _t(ctx, "sim-idle")

    # ---------------- exhaustive short histories
    exlen = 2 if quick else 4
    ex = exhaustive_cases(exlen)
    for c in ex:
        c["last_only"] = True
    eruns = core.run_impl("ledger.py", {"cases": ex}, timeout=1500)["runs"]
    ctx.rules.append("S-ledger-exhaustive: ALL histories of length <= %d over the 14-letter alphabet {place t0/t1 with a plain, a "
                     "competing-keys and a batch strategy, remove t0/t1, load, evict, step, copy, two operations on the copy} on "
                     "one worker with a 2x2 vector; outcomes of every operation and the final observation are compared"
                     % exlen)
    ctx.cov["input_distribution"]["exhaustive_histories"] = len(ex)
    ctx.cov["distinct_nontrivial"] += sum(1 for r in eruns if any(x != 0 for x in r["obs"][0]) and any(x == 0 for x in r["obs"][0]))
    try:
        mcases = [(g_case(c), r["obs"], c) for c, r in zip(ex, eruns)]
        mism = ctx.model_stream("S-ledger-exhaustive", HDR, "world_case", "world_obs_last", mcases, shard=250)
        for idx, mv in mism[:3]:
            ctx.violation("exh%d" % idx, {"stream": "S-ledger-exhaustive", "case": ex[idx], "implementation": eruns[idx]["obs"],
                                           "model": mv, "what": "Worker observations differ from the model"})
    except core.ModelEvalError as e:
        ctx.broken.append({"kind": "correspondence", "name": "S-ledger-exhaustive", "detail": str(e)[-600:]})
    _t(ctx, "exhaustive")
    if not quick:
        # the monitors on every exhaustive history of length <= 3 as well (full observation after every operation)
        ex = [dict(c, last_only=False) for c in ex if len(c["cmds"]) <= 3]
        eruns = core.run_impl("ledger.py", {"cases": ex}, timeout=1500)["runs"]
        emon = Mon()
        estats = {"inside_hypotheses": 0, "outside_hypotheses": 0, "tainted_objects": 0, "objects": 0}
        for ci, (c, r) in enumerate(zip(ex, eruns)):
            analyse(ci, c, r, emon, estats)
        ctx.cov["input_distribution"]["monitors_exhaustive"] = dict(estats, **{k: len(v) for k, v in emon.items.items()})
        try:
            run_monitors(ctx, ex, emon, "-exh")
        except core.ModelEvalError as e:
            ctx.broken.append({"kind": "monitor", "name": "C04 monitors (exhaustive)", "detail": str(e)[-600:]})



def _run_sim_idle(ctx):
    try:
        sim_idle_stream(ctx, 20 if ctx.tier == "quick" else 200)
    except core.ModelEvalError as e:
        ctx.broken.append({"kind": "monitor", "name": "S-sim-idle", "detail": str(e)[-600:]})


def py_fallback(ctx, cases, runs):
    """pure-Python form of the conservation monitor, used only when the Gallina monitors cannot be evaluated"""
    for ci, (c, r) in enumerate(zip(cases, runs)):
        if not case_in_hypotheses(c):
            continue
        tots = [vectors_of(o) for o in c["objs"]]
        for k, step in enumerate(r["obs"][1:]):
            for i, o in enumerate(step[1][:len(tots)]):
                for j, w in enumerate(workers_of(o)):
                    tot = {json.dumps(kq[0]): kq[1] for kq in tots[i][j]}
                    for key, q in w[0][4]:
                        kk = json.dumps(k_of_obs(key))
                        alloc = sum(x for _, l in w[0][3] for k2, x in l if k2 == key)
                        if q < 0 or q + alloc != tot.get(kk):
                            ctx.violation("pyledger", {"monitor": "python fallback of check_ledger", "case": dict(c, cmds=c["cmds"][:k + 1]),
                                                       "cell": key, "available": q, "allocated": alloc, "total": tot.get(kk)})
                            return


def _hist(xs):
    h = {}
    for x in xs:
        h[str(x)] = h.get(str(x), 0) + 1
    return h
