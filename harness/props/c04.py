"""C04 — resource ledger conservation (and the worker/pool half of C01: demand <= capacity)."""
import itertools
import json
import os

import core
from core import gz, glist, gopt, gbool

FILES = ["workload/resource.py", "workload/resources.py", "workers/workers.py", "workload/strategy.py"]
TRUSTED = [
    "hand-written Gallina model Model/Res.v + Model/Worker.v of Resource/Resources/Worker/WorkerPool(s) (not generated "
    "from source): tied to /repo on every run by the differential stream S-ledger, which compares after EVERY operation "
    "the public getters AND the private ledger cells of every live object (originals and copies)",
    "CPython dict (insertion order, lookup by __hash__ then __eq__), set, defaultdict and copy.copy/deepcopy dispatch are "
    "modelled, not verified; the second-level `_scheduler` of WorkerPool is out of scope (None in every configuration of /repo)",
    "the Task half of Worker.step (stepping RUNNING tasks) belongs to the Task/Sim model; here tasks are never RUNNING",
]
EXPLANATION = None
HDR = "From Verif Require Import Model.Res Model.Worker."


# --------------------------------------------------------------------------------------------
# Gallina rendering
# --------------------------------------------------------------------------------------------
def g_key(k):
    return "(%s, %s)" % (gz(k[0]), "RAny" if k[1] is None else "RId %s" % gz(k[1]))


def g_vec(v):
    return glist(["(%s, %s)" % (g_key(k), gz(q)) for k, q in v])


def g_strat(s):
    return "(mkStrat %s %s %s %s %s)" % (gz(s["id"]), gbool(s["batch"]), g_vec(s["req"]), gz(s["bsize"]), gz(s["runtime"]))


def g_comp(c):
    return "(%s %s)" % (["CTask", "CBatch", "CProf"][c[0]], gz(c[1]))


def g_worker(w, base):
    return "(w_rebase %s (w_new %s %s))" % (gz(base), gz(w[0]), g_vec(w[1]))


def g_objs(objs):
    out = []
    base = 0
    for o in objs:
        if o[0] == "res":
            out.append("ORes (r_new %s)" % g_vec(o[1]))
        elif o[0] == "worker":
            out.append("OWorker %s" % g_worker([o[1], o[2]], base))
            base += 1000
        else:
            ws = []
            for w in o[2]:
                ws.append(g_worker(w, base))
                base += 1000
            out.append("OPool (p_new %s %s)" % (gz(o[1]), glist(ws)))
    return glist(out)


def g_cmd(c, S):
    k = c[0]
    if k == "copy":
        return "CCopy %d" % c[1]
    if k == "deepcopy":
        return "CDeepCopy %d" % c[1]
    op = c[2]
    if k == "res":
        if op[0] == "alloc":
            g = "RAllocate %s %s %s" % (g_key(op[1]), g_comp(op[2]), gz(op[3]))
        elif op[0] == "allocm":
            g = "RAllocateMultiple %s %s" % (g_vec(op[1]), g_comp(op[2]))
        elif op[0] == "dealloc":
            g = "RDeallocate %s" % g_comp(op[1])
        else:
            g = "RGetAllocated %s" % g_comp(op[1])
        return "CRes %d (%s)" % (c[1], g)
    if k == "worker":
        if op[0] == "place":
            g = "WPlace %s %s" % (gz(op[1]), g_strat(S[op[2]]))
        elif op[0] == "remove":
            g = "WRemove %s" % gz(op[1])
        elif op[0] == "load":
            g = "WLoad %s %s" % (gz(op[1]), g_strat(S[op[2]]))
        elif op[0] == "evict":
            g = "WEvict %s" % gz(op[1])
        elif op[0] == "step":
            g = "WStep %s" % gz(op[1])
        else:
            g = "WGetAllocated %s" % gz(op[1])
        return "CWorker %d (%s)" % (c[1], g)
    if op[0] == "place":
        g = "PPlace %s %s %s %s" % (gz(op[1]), glist([g_strat(S[s]) for s in op[2]]),
                                    gopt(op[3], lambda s: g_strat(S[s])), gopt(op[4], gz))
    elif op[0] == "remove":
        g = "PRemove %s" % gz(op[1])
    elif op[0] == "load":
        g = "PLoad %s %s %s" % (gz(op[1]), g_strat(S[op[2]]), gopt(op[3], gz))
    elif op[0] == "evict":
        g = "PEvict %s %s" % (gz(op[1]), gopt(op[2], gz))
    else:
        g = "PStep %s" % gz(op[1])
    return "CPool %d (%s)" % (c[1], g)


def g_case(case):
    S = {s["id"]: s for s in case["strats"]}
    probes = "(mkProbes %s %s %s %s)" % (glist([g_key(k) for k in case["keys"]]),
                                         glist([g_strat(s) for s in case["strats"]]),
                                         glist([gz(p) for p in case["profs"]]),
                                         glist([gz(t) for t, _ in case["tasks"]]))
    return "(%s, %s, %s)" % (probes, g_objs(case["objs"]), glist([g_cmd(c, S) for c in case["cmds"]]))


# --------------------------------------------------------------------------------------------
# generators
# --------------------------------------------------------------------------------------------
def gen_vector(rng, names, mixed_ok):
    v = []
    for n in names:
        r = rng.random()
        if r < 0.3:
            cells = [None]
        elif mixed_ok and r < 0.4:
            cells = [None] + list(range(rng.randint(1, 2)))
            rng.shuffle(cells)
        else:
            cells = list(range(rng.randint(1, 3)))
        for i in cells:
            v.append([[n, i], rng.choice([0, 1, 1, 2, 2, 3])])
    if rng.random() < 0.3:
        rng.shuffle(v)
    return v


def gen_request(rng, names, odd):
    """a request vector: dict keys are distinct (name, id) pairs"""
    n = rng.choice([0, 1, 1, 1, 2, 2, 3]) if odd else rng.choice([1, 1, 1, 2, 2])
    keys = []
    for _ in range(n):
        nm = rng.choice(names + ([9] if odd and rng.random() < 0.1 else []))
        i = None if rng.random() < 0.6 else rng.randrange(3)
        if [nm, i] not in keys:
            keys.append([nm, i])
    qs = [0, 1, 1, 1, 2, 2, 3] + ([-1] if odd and rng.random() < 0.2 else [])
    return [[k, rng.choice(qs)] for k in keys]


def gen_case(rng, maxcmds, kinds=("res", "worker", "pool")):
    odd = rng.random() < 0.5          # inputs outside the well-formedness hypotheses of the theorems
    names = list(range(rng.randint(1, 3)))
    strats = []
    for i in range(rng.randint(3, 5)):
        strats.append({"id": i, "batch": rng.random() < 0.4, "req": gen_request(rng, names, odd),
                       "bsize": rng.choice([0, 1, 2, 2, 3]) if odd else rng.choice([1, 2, 2, 3]),
                       "runtime": rng.choice([0, 1, 2, 5])})
    sids = [s["id"] for s in strats]
    tasks = [[t, rng.sample(sids, rng.randint(1, 2))] for t in range(4)]
    profs = [0, 1]
    objs = []
    nw = 0
    for _ in range(rng.choice([1, 1, 1, 2])):
        k = rng.choice(kinds)
        if k == "res":
            objs.append(["res", gen_vector(rng, names, odd)])
        elif k == "worker":
            objs.append(["worker", nw, gen_vector(rng, names, odd)])
            nw += 1
        else:
            ws = []
            for _ in range(rng.randint(1, 3)):
                ws.append([nw, gen_vector(rng, names, odd)])
                nw += 1
            objs.append(["pool", len(objs), ws])
    keys = []
    for n in names:
        keys += [[n, None], [n, 0], [n, 1], [n, 2]]
    case = {"keys": keys, "strats": strats, "tasks": tasks, "profs": profs, "objs": objs, "cmds": [], "odd": odd}
    kinds_now = [o[0] for o in objs]
    wids = {}
    for i, o in enumerate(objs):
        if o[0] == "pool":
            wids[i] = [w[0] for w in o[2]]
    for _ in range(rng.randint(3, maxcmds)):
        if len(kinds_now) < 4 and rng.random() < 0.12:
            i = rng.randrange(len(kinds_now))
            case["cmds"].append([rng.choice(["copy", "copy", "deepcopy"]), i])
            kinds_now.append(kinds_now[i])
            if i in wids:
                wids[len(kinds_now) - 1] = wids[i]
            continue
        i = rng.randrange(len(kinds_now))
        k = kinds_now[i]
        r = rng.random()
        if k == "res":
            comp = [rng.choice([0, 0, 1, 2]), rng.randrange(3)]
            if comp[0] == 2:
                comp[1] = rng.randrange(2)
            if r < 0.3:
                key = [rng.choice(names), None if rng.random() < 0.5 else rng.randrange(3)]
                op = ["alloc", key, comp, rng.choice([0, 1, 1, 2, 3] + ([-1] if odd else []))]
            elif r < 0.65:
                op = ["allocm", gen_request(rng, names, odd), comp]
            elif r < 0.93:
                op = ["dealloc", comp]
            else:
                op = ["getalloc", comp]
        elif k == "worker":
            if r < 0.42:
                op = ["place", rng.randrange(4), rng.choice(sids)]
            elif r < 0.7:
                op = ["remove", rng.randrange(4)]
            elif r < 0.8:
                op = ["load", rng.randrange(2), rng.choice(sids)]
            elif r < 0.88:
                op = ["evict", rng.randrange(2)]
            elif r < 0.96:
                op = ["step", rng.choice([1, 1, 2, 3])]
            else:
                op = ["getalloc", rng.randrange(4)]
        else:
            def wid():
                x = rng.random()
                return None if x < 0.5 else (7 if x < 0.55 else rng.choice(wids[i]))
            if r < 0.45:
                t = rng.randrange(4)
                op = ["place", t, tasks[t][1], rng.choice(sids) if rng.random() < 0.7 else None, wid()]
            elif r < 0.72:
                op = ["remove", rng.randrange(4)]
            elif r < 0.82:
                op = ["load", rng.randrange(2), rng.choice(sids), wid()]
            elif r < 0.9:
                op = ["evict", rng.randrange(2), wid()]
            else:
                op = ["step", rng.choice([1, 1, 2, 3])]
        case["cmds"].append([k, i, op])
    return case


def nontrivial(case, obs):
    """a refused request, or a batch / copy / any-request that succeeded"""
    codes = [o[0] for o in obs[1:]]
    return any(c > 0 or c == -1 for c in codes) and any(c == 0 for c in codes)


# --------------------------------------------------------------------------------------------
def run(ctx):
    ctx.fingerprint(FILES)
    built = ctx.build("C04", deps=["Model/Worker.v"])
    quick = ctx.tier == "quick"
    n = 600 if quick else 6000
    cases = [gen_case(ctx.rng, 10 if quick else 14) for _ in range(n)]
    impl = core.run_impl("ledger.py", {"cases": cases})["obs"]
    ctx.rules.append("S-ledger: histories of allocate/allocate_multiple/deallocate/get_allocated_resources on Resources, "
                     "place (plain, batch)/remove/load/evict/step/get_allocated_resources on Worker, place (all branches)/"
                     "remove/load/evict/step on WorkerPool, copy/deepcopy of any of them, on 1-3 resource names x 1-3 "
                     "instances (`any` cells and `any`/specific/absent requests, zero quantities; half of the cases also "
                     "outside the theorems' hypotheses: mixed any+specific vectors, competing request keys, negative "
                     "quantities, batch size 0); after every operation every live object is observed (getters + ledger "
                     "cells); distinct = distinct (objects, history); non-trivial = at least one refused and one accepted operation")
    seen = set()
    nt = 0
    opk = {}
    for c, o in zip(cases, impl):
        for cmd in c["cmds"]:
            kk = cmd[0] if cmd[0] in ("copy", "deepcopy") else "%s.%s" % (cmd[0], cmd[2][0])
            opk[kk] = opk.get(kk, 0) + 1
        key = json.dumps([c["objs"], c["cmds"], c["strats"]])
        if key in seen:
            continue
        seen.add(key)
        if nontrivial(c, o):
            nt += 1
    ctx.cov["distinct_nontrivial"] += nt
    ctx.cov["input_distribution"] = {"ops_by_kind": opk,
                                     "outcomes": _hist([x[0] for o in impl for x in o[1:]])}
    ctx.sample({"stream": "S-ledger", "case": {k: cases[0][k] for k in ("objs", "cmds")},
                "outcomes": [x[0] for x in impl[0][1:]]})
    try:
        mcases = [(g_case(c), o, c) for c, o in zip(cases, impl)]
        mism = ctx.model_stream("S-ledger", HDR, "world_case", "world_obs", mcases, shard=60)
        for idx, mv in mism[:3]:
            ctx.violation("ledger%d" % idx, {"stream": "S-ledger", "case": cases[idx],
                                              "implementation": impl[idx], "model": mv,
                                              "what": "Resources/Worker/WorkerPool observations differ from the model"})
    except core.ModelEvalError as e:
        ctx.broken.append({"kind": "correspondence", "name": "S-ledger", "detail": str(e)[-600:]})


def _hist(xs):
    h = {}
    for x in xs:
        h[str(x)] = h.get(str(x), 0) + 1
    return h
