"""C10, Clockwork part — one decision per request, only offered requests, existing pool/worker/strategy, start >= now,
and schedule() changes neither the live cluster nor any task (every getter compared before/after)."""
import core
from props import c15

FILES = c15.FILES + ["workload/tasks.py"]
TRUSTED = c15.TRUSTED + [
    "side-effect freedom is observed through the getters of WorkerPools/WorkerPool/Worker/Resources (placed tasks, available and "
    "pending profiles with remaining load time, per-task allocations, resource vector, is_full, number of batches) and of every "
    "Task (state, deadline, release/start/completion/scheduling times, remaining time, pool); state not reachable through them "
    "is not compared",
]


def run(ctx):
    ctx.fingerprint(FILES)
    ctx.translate(["Clockwork"])
    built = ctx.build("C10_cw", deps=["Model/Clockwork.v"])
    quick = ctx.tier == "quick"
    size = 4 if quick else 6
    ctx.rules.append("S-cw (C10_cw): histories as in C15 (natural, adversarial = decisions not applied or retracted, load = "
                     "scheduler_run_load on) on partially occupied clusters (running batches of earlier invocations, pending and "
                     "available profiles); monitors on the returned Placements: no request decided twice, every decision for an "
                     "offered request, batches name an existing pool/worker (with the model loaded and room for the strategy after "
                     "the earlier batches of the invocation are re-played: joint capacity, all placements start now) and a strategy of the "
                     "request's profile, start == now and >= the request's release; "
                     "getters of cluster and tasks identical before/after each call (compared in Coq as values)")
    dist_all = {}
    for mode, n in (("natural", 60 if quick else 1500), ("adversarial", 30 if quick else 500), ("load", 20 if quick else 300), ("sim", 10 if quick else 150)):
        hs, impls = c15.generate(ctx, n, size, mode)
        nt, dist = c15.stats(ctx, hs, impls)
        ctx.cov["distinct_nontrivial"] += nt
        occupied = sum(1 for im in impls for r in im["steps"] for p in r["view"] for w in p["workers"])
        dist["worker_views"] = occupied
        dist_all[mode] = dist
        stream = "S-cw-" + mode + "(C10)"
        if mode == "natural":
            ctx.sample({"stream": stream, "history": hs[0], "implementation": c15.expected(impls[0])})
        c15.getters_monitor(ctx, hs, impls, stream + ":getters")
        c15.starts_monitor(ctx, hs, impls, stream + ":starts")
        c15.strip(hs, impls)
        try:
            c15.correspondence(ctx, hs, impls, stream)
        except core.ModelEvalError as e:
            ctx.broken.append({"kind": "correspondence", "name": stream, "detail": str(e)[-600:]})
        c15.monitors(ctx, hs, impls, stream, once=(mode != "adversarial"))
    ctx.cov["input_distribution"] = dist_all
    c15.run_corpus(ctx, "S-cw-corpus(C10)")
    return built
