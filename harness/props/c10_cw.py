"""C10, Clockwork part — one decision per request, only offered requests, existing pool/worker/strategy, start >= now,
and schedule() changes neither the live cluster nor any task (every getter compared before/after)."""
import core
from props import c15

FILES = c15.FILES + ["workload/tasks.py"]
TRUSTED = c15.TRUSTED + [
    "side-effect freedom is observed through the getters of WorkerPools/WorkerPool/Worker/Resources (placed tasks, available and "
    "pending profiles with remaining load time, per-task allocations, resource vector, is_full, number of batches) and of every "
    "Task (state, deadline, release/start/completion/scheduling times, remaining time, pool); state not reachable through them "
    "is not compared",
]


def run(ctx):
    ctx.fingerprint(FILES)
    ctx.translate(["Clockwork"])
    built = ctx.build("C10_cw", deps=["Model/Clockwork.v"])
    quick = ctx.tier == "quick"
    size = 4 if quick else 6
    ctx.rules.append("S-cw (C10_cw): histories as in C15 (natural, adversarial = decisions not applied or retracted, load = "
                     "scheduler_run_load on) on partially occupied clusters (running batches of earlier invocations, pending and "
                     "available profiles); monitors on the returned Placements: no request decided twice, every decision for an "
                     "offered request, batches name an existing pool/worker (with the model loaded and room for the strategy after "
                     "the earlier batches of the invocation are re-played: joint capacity, all placements start now) and a strategy of the "
                     "request's profile, start == now and >= the request's release; "
                     "getters of cluster and tasks identical before/after each call (compared in Coq as values)")
    dist_all, groups = {}, []
    for mode, n in (("natural", 60 if quick else 1500), ("adversarial", 30 if quick else 500), ("load", 20 if quick else 300), ("sim", 10 if quick else 150)):
        hs, impls = c15.generate(ctx, n, size, mode)
        nt, dist = c15.stats(ctx, hs, impls)
        ctx.cov["distinct_nontrivial"] += nt
        dist["worker_views"] = sum(1 for im in impls for r in im["steps"] for p in r["view"] for w in p["workers"])
        dist_all[mode] = dist
        if mode == "natural":
            ctx.sample({"stream": "S-cw(C10)", "history": hs[0], "implementation": c15.expected(impls[0])})
        groups.append((mode, hs, impls))
    ctx.cov["input_distribution"] = dist_all
    c15.evaluate(ctx, groups, "S-cw(C10)", getters=True, starts=True)
    return built
