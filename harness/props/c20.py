"""C20 — STRL compilation in the C++ back-end (schedulers/tetrisched): every solution of the generated
model, read back as placements, is a valid space-time allocation.

Tie: a stand-alone C++ driver (harness/impl/strl/driver.cpp) is compiled on every run from /repo's CURRENT
tetrisched sources against a sequential TBB shim; it runs the real Expression::parse / CapacityConstraintMap /
populateResults.  Its model dump and read-back are compared inside Coq with Model/Strl.v (`compile`, `solve`), and
the Gallina monitors of Model/Strl.v (proved equivalent to the theorem's conclusions in Proofs/StrlP*.v) are applied
to the placements the C++ code itself returns for satisfying assignments.
"""
import json
import os
import re
import shutil
import subprocess

import core
from core import gz, glist, gbool

SRC = ["schedulers/tetrisched/src/Expression.cpp", "schedulers/tetrisched/src/CapacityConstraint.cpp",
       "schedulers/tetrisched/src/SolverModel.cpp", "schedulers/tetrisched/src/Partition.cpp",
       "schedulers/tetrisched/src/Types.cpp", "schedulers/tetrisched/src/Scheduler.cpp",
       "schedulers/tetrisched/include/tetrisched/Expression.hpp",
       "schedulers/tetrisched/include/tetrisched/CapacityConstraint.hpp",
       "schedulers/tetrisched/include/tetrisched/SolverModel.hpp",
       "schedulers/tetrisched/include/tetrisched/Partition.hpp",
       "schedulers/tetrisched/include/tetrisched/Types.hpp"]
IMPL = os.path.join(core.ROOT, "harness", "impl", "strl")
HEADER = "From Verif Require Import Model.Strl."

TRUSTED = [
    "g++ 12 and the C++ standard library; a ~100-line sequential stand-in for tbb::concurrent_hash_map / "
    "concurrent_vector / task_group / parallel_for (harness/impl/strl/shim; /repo's extern/tbb is an empty submodule): "
    "the lowering is checked as a sequential program, data races of the real TBB build are out of scope",
    "harness/impl/strl/driver.cpp (builds the tree, defines tetrisched::GurobiSolver as a pure accessor through the "
    "friend declarations of SolverModel.hpp, requires an Objective root like Scheduler.cpp:66-71, prints JSON) and the "
    "Python canonicaliser of its dump (variable names -> (kind, node, partition); rows and terms sorted)",
    "no MILP solver is part of the claim: satisfying assignments are SAMPLED with z3 from the C++ dump (support for the "
    "tie and the monitors only); the theorems quantify over every assignment satisfying the model",
    "Time is uint32_t and coefficients are double in C++, Z in the model: exact below 2^31 / 2^53 (generated values are "
    "small); the solver back-end is assumed to return integral values within the declared bounds "
    "(GurobiSolver.cpp:443-451 rounds them)",
    "NOT modelled (the property is therefore partial): WindowedChoose, MalleableChoose, OptimizationPasses.cpp, dynamic "
    "discretisation, overlap constraints (useOverlapConstraints, never enabled by Scheduler.cpp), shared sub-expressions "
    "(DAGs), duplicate expression names",
]
EXPLANATION = ("Coq theorems about an executable model of the STRL lowering; the model is compared row by row with the "
               "model the real C++ code builds, and variable values are read back through the real populateResults")


# --------------------------------------------------------------------------- generation
class Gen:
    def __init__(self, rng):
        self.rng = rng
        self.nid = 0

    def fresh(self):
        self.nid += 1
        return self.nid

    def case(self, kind):
        """kind: 'aligned' | 'free' | 'error'"""
        r = self.rng
        self.nid = 0
        g = r.choice([1, 2, 2, 3, 4])
        now = r.choice([0, 0, 0, 1, 2, 5])
        npart = r.choice([1, 1, 2, 2, 3])
        pids = r.sample([1, 2, 3, 5], npart)
        pt = [[p, r.choice([1, 1, 2, 3]), 1 if r.random() < 0.9 else 0] for p in pids]
        self.pids = pids
        self.g = g
        self.base = r.randrange(0, g)
        self.aligned = kind != "free"
        self.horizon = r.choice([6, 8, 12])
        self.err = None
        kids = [self.node(0) for _ in range(r.choice([1, 1, 2, 2, 3]))]
        tree = ["OBJ", self.fresh(), kids]
        if kind == "error":
            tree = self.inject_error(tree)
        return {"pt": pt, "now": now, "g": g, "tree": tree, "kind": kind}

    def start(self):
        r = self.rng
        if self.aligned:
            return self.base + self.g * r.randrange(0, max(1, self.horizon // self.g))
        return r.randrange(0, self.horizon)

    def choose(self):
        r = self.rng
        k = r.choice([1, 1, 2, len(self.pids)])
        parts = r.sample(self.pids, min(k, len(self.pids)))
        return ["C", self.fresh(), parts, r.choice([1, 1, 2, 3]), self.start(), r.choice([1, 2, 3, 4, 5]),
                r.choice([0, 1, 1, 2, 3, 5])]

    def alloc(self):
        r = self.rng
        k = r.choice([1, 1, 2])
        parts = r.sample(self.pids, min(k, len(self.pids)))
        return ["A", self.fresh(), [[p, r.choice([0, 1, 1, 2])] for p in parts], self.start(), r.choice([1, 2, 3, 4])]

    def node(self, depth):
        r = self.rng
        x = r.random()
        if depth >= 2 or x < 0.30:
            return self.choose() if r.random() < 0.85 else self.alloc()
        if x < 0.50:
            return ["MAX", self.fresh(), [self.choose() for _ in range(r.choice([1, 2, 2, 3]))]]
        if x < 0.70:
            return ["MIN", self.fresh(), [self.node(depth + 1) for _ in range(r.choice([1, 2, 2, 3]))]]
        if x < 0.88:
            return ["LT", self.fresh(), self.node(depth + 1), self.node(depth + 1)]
        return ["SC", self.fresh(), r.choice([0, 1, 2, 3]), 1 if r.random() < 0.3 else 0, self.node(depth + 1)]

    def inject_error(self, tree):
        r = self.rng
        k = r.randrange(5)
        if k == 0:      # root is not an Objective
            return tree[2][0]
        if k == 1:      # Min without children
            tree[2].append(["MIN", self.fresh(), []])
        elif k == 2:    # Max with a non-Choose child
            tree[2].append(["MAX", self.fresh(), [self.choose(), ["MIN", self.fresh(), [self.choose()]]]])
        elif k == 3:    # Max whose children are all in the past / unschedulable
            c = self.choose()
            c[2] = []
            tree[2].append(["MAX", self.fresh(), [c]])
        else:           # duplicate partition in a Choose
            c = self.choose()
            c[2] = [c[2][0], c[2][0]]
            tree[2].append(c)
        return tree


def leaves(t):
    k = t[0]
    if k in ("C", "A", "W"):
        return [t]
    if k in ("MIN", "MAX", "OBJ"):
        return [l for c in t[2] for l in leaves(c)]
    if k == "LT":
        return leaves(t[2]) + leaves(t[3])
    return leaves(t[4])


def nodes(t):
    k = t[0]
    out = [t]
    if k in ("MIN", "MAX", "OBJ"):
        for c in t[2]:
            out += nodes(c)
    elif k == "LT":
        out += nodes(t[2]) + nodes(t[3])
    elif k == "SC":
        out += nodes(t[4])
    return out


def leaf_span(l):
    if l[0] == "W":
        return (l[4], l[6] + l[5] - l[4])
    return (l[4], l[5]) if l[0] == "C" else (l[3], l[4])


def leaf_parts(l):
    return set(l[2]) if l[0] == "C" else set(p for p, _ in l[2])


def f13_signature(case):
    """INPUT predicate of finding F13 (as narrow as the defect): two leaves that share a partition, overlap in time
    and whose start times are not congruent modulo the granularity (they never share a capacity row)."""
    ls = leaves(case["tree"])
    g = case["g"]
    for i in range(len(ls)):
        for j in range(i + 1, len(ls)):
            (s1, d1), (s2, d2) = leaf_span(ls[i]), leaf_span(ls[j])
            if (s1 - s2) % g != 0 and leaf_parts(ls[i]) & leaf_parts(ls[j]) and s1 < s2 + d2 and s2 < s1 + d1:
                return True
    return False


def kinds(case, t):
    """(parse type, start kind, end kind, indicator kind) of a node as Expression::parse computes them:
    None for EXPRESSION_NO_UTILITY, else ('c'|'v', 'c'|'v', 'c'|'v') plus constant start/end when known."""
    k = t[0]
    avail = {p for p, _, a in case["pt"] if a}
    if k == "C":
        if case["now"] > t[4] or not [p for p in t[2] if p in avail]:
            return None
        return ("c", "c", "v", t[4], t[4] + t[5])
    if k == "A":
        return ("c", "c", "c", t[3], t[3] + t[4])
    if k == "MIN":
        ks = [kinds(case, c) for c in t[2]]
        if any(x is None for x in ks):
            return None
        return ("v", "v", "v" if any(x[2] == "v" for x in ks) else "c", None, None)
    if k == "MAX":
        return ("v", "v", "v", None, None)
    if k == "LT":
        x, y = kinds(case, t[2]), kinds(case, t[3])
        if x is None or y is None:
            return None
        if x[1] == "c" and y[0] == "c":
            return (x[0], y[1], "c", x[3], y[4]) if x[4] <= y[3] else None
        return (x[0], y[1], "v", x[3], y[4])
    if k == "SC":
        return kinds(case, t[4])
    return ("c", "c", "c", 0, 2 ** 32 - 1)


def has_choose(t):
    return any(l[0] == "C" for l in leaves(t))


def plain(case, t):
    """Choose / Allocation leaves, Scale of plain, and constant-path LessThan over plain children: the nodes whose
    start and end times are honest constants."""
    k = t[0]
    if k in ("C", "A"):
        return True
    if k == "SC":
        return plain(case, t[4])
    if k == "LT":
        me = kinds(case, t)
        return me is not None and me[2] == "c" and plain(case, t[2]) and plain(case, t[3])
    return False


def flt_signature(case):
    """INPUT predicate of finding F14: (a) a LessThan that is lowered through solver variables has a child whose
    indicator is the constant 1 (a trivially satisfied sub-expression) that contains Choose leaves, or a Min mixes
    constant- and variable-indicator children (same leak): the parent's indicator then does not gate that child's
    utility and placements; (b) a trivially satisfied LessThan has a child that is not `plain`."""
    for t in nodes(case["tree"]):
        if t[0] == "LT":
            me = kinds(case, t)
            if me is not None and me[2] == "v":
                for c in (t[2], t[3]):
                    kc = kinds(case, c)
                    if kc is not None and kc[2] == "c" and has_choose(c):
                        return True
            # variant b: a trivially satisfied (constant-path) LessThan takes its constant times from a child that is
            # itself lowered through solver variables and may be unsatisfied
            if me is not None and me[2] == "c" and has_choose(t):
                if not (plain(case, t[2]) and plain(case, t[3])):
                    return True
        if t[0] == "MIN":
            me = kinds(case, t)
            if me is not None and me[2] == "v":
                for c in t[2]:
                    kc = kinds(case, c)
                    if kc is not None and kc[2] == "c" and has_choose(c):
                        return True
    return False


def choose_ids(t):
    return {l[1] for l in leaves(t) if l[0] == "C"}


def py_lt_violation(case, pls):
    for t in nodes(case["tree"]):
        if t[0] == "LT":
            a, b = choose_ids(t[2]), choose_ids(t[3])
            for p1 in pls:
                for p2 in pls:
                    if p1[0] in a and p2[0] in b and p1[2] > p2[1]:
                        return {"lessthan": t[1], "first": p1, "second": p2}
    return None


def py_min_violation(case, pls):
    """Pure-Python rendering of min_okb: of the members of a Min that contain Choose leaves, none or all are placed."""
    names = {p[0] for p in pls}
    for t in nodes(case["tree"]):
        if t[0] == "MIN":
            ms = [k for k in t[2] if choose_ids(k)]
            got = [bool(choose_ids(k) & names) for k in ms]
            if any(got) and not all(got):
                return {"min": t[1], "members placed": [k[1] for k, g in zip(ms, got) if g],
                        "members not placed": [k[1] for k, g in zip(ms, got) if not g]}
    return None


def py_structure_violation(case, pls):
    """Pure-Python fallback of structure_okb."""
    avail = {p: q for p, q, a in case["pt"] if a}
    ch = {l[1]: l for l in leaves(case["tree"]) if l[0] == "C"}
    names = [p[0] for p in pls]
    if len(set(names)) != len(names):
        return {"duplicate placement names": names}
    for pl in pls:
        c = ch.get(pl[0])
        if c is None:
            return {"placement without a Choose": pl}
        ok = (pl[1] == c[4] and pl[2] == c[4] + c[5] and sum(a[2] for a in pl[3]) == c[3] and case["now"] <= c[4]
              and all(a[0] in c[2] and a[0] in avail and a[1] == c[4] and 0 < a[2] <= avail[a[0]] for a in pl[3]))
        if not ok:
            return {"placement differs from its Choose": pl, "choose": c}
    for t in nodes(case["tree"]):
        if t[0] == "MAX":
            mine = {p[0] for p in pls if p[0] in {c[1] for c in t[2]}}
            if len(mine) > 1:
                return {"max": t[1], "children placed": sorted(mine)}
    return None


# --------------------------------------------------------------------------- rendering
def g_expr(t):
    k = t[0]
    if k == "C":
        return "(Choose %s %s %s %s %s %s)" % (gz(t[1]), glist([gz(p) for p in t[2]]), gz(t[3]), gz(t[4]), gz(t[5]), gz(t[6]))
    if k == "A":
        return "(Alloc %s %s %s %s)" % (gz(t[1]), glist(["(%s, %s)" % (gz(p), gz(a)) for p, a in t[2]]), gz(t[3]), gz(t[4]))
    if k in ("MIN", "MAX", "OBJ"):
        return "(%s %s %s)" % ({"MIN": "Min", "MAX": "Max", "OBJ": "Objective"}[k], gz(t[1]), glist([g_expr(c) for c in t[2]]))
    if k == "LT":
        return "(LessThan %s %s %s)" % (gz(t[1]), g_expr(t[2]), g_expr(t[3]))
    return "(Scale %s %s %s %s)" % (gz(t[1]), gz(t[2]), gbool(t[3]), g_expr(t[4]))


def g_ptab(pt):
    return glist(["(%s, %s, %s)" % (gz(p), gz(q), gbool(a)) for p, q, a in pt])


def g_case(c):
    return "(%s, %s, %s, %s)" % (g_ptab(c["pt"]), gz(c["now"]), gz(c["g"]), g_expr(c["tree"]))


def g_case_dyn(c, ranges):
    return "(%s, %s, %s, %s)" % (g_ptab(c["pt"]), gz(c["now"]),
                                 glist(["(%s, %s, %s)" % (gz(a), gz(b), gz(g)) for a, b, g in ranges]), g_expr(c["tree"]))


def g_var(code):
    k, n, p = code
    return ["(VInd %s)" % gz(n), "(VAlloc %s %s)" % (gz(n), gz(p)), "(VStart %s)" % gz(n), "(VEnd %s)" % gz(n)][k]


def driver_text(c, assigns):
    out = ["CASE %d %d" % (c["now"], c["g"])]
    for p, q, a in c["pt"]:
        out.append("PART %d %d %d" % (p, q, a))
    # partitions named by a leaf but absent from the table make the driver fail at construction (unknown partition)

    def emit(t):
        k = t[0]
        if k == "C":
            out.append("NODE %d CHOOSE e%d %d %d %d %d %d %s" % (t[1], t[1], t[3], t[4], t[5], t[6], len(t[2]),
                                                              " ".join(str(p) for p in t[2])))
        elif k == "W":
            out.append("NODE %d WCHOOSE e%d %d %d %d %d %d %d %d %s" % (t[1], t[1], t[3], t[4], t[5], t[6], t[7], t[8], len(t[2]),
                                                                    " ".join(str(p) for p in t[2])))
        elif k == "A":
            out.append("NODE %d ALLOC e%d %d %d %d %s" % (t[1], t[1], t[3], t[4], len(t[2]),
                                                        " ".join("%d %d" % (p, a) for p, a in t[2])))
        elif k in ("MIN", "MAX", "OBJ"):
            for ch in t[2]:
                emit(ch)
            out.append("NODE %d %s e%d %d %s" % (t[1], k, t[1], len(t[2]), " ".join(str(ch[1]) for ch in t[2])))
        elif k == "LT":
            emit(t[2])
            emit(t[3])
            out.append("NODE %d LT e%d 2 %d %d" % (t[1], t[1], t[2][1], t[3][1]))
        else:
            emit(t[4])
            out.append("NODE %d SCALE e%d %d %d 1 %d" % (t[1], t[1], t[2], t[3], t[4][1]))
    emit(c["tree"])
    out.append("ROOT %d" % c["tree"][1])
    for a in assigns:
        out.append("ASSIGN %d %s" % (len(a), " ".join(str(int(x)) for x in a)))
    out.append("END")
    return "\n".join(out) + "\n"


# --------------------------------------------------------------------------- the driver
class DriverError(Exception):
    pass


def build_driver(ctx):
    """Compile the driver from the CURRENT sources of core.REPO (never cached)."""
    out = os.path.join(ctx.work, "drv")
    shutil.rmtree(out, ignore_errors=True)
    rc, o, e = core.run_cmd(["bash", os.path.join(IMPL, "build.sh"), core.REPO, out], timeout=600)
    exe = os.path.join(out, "strl_driver")
    if rc != 0 or not os.path.exists(exe):
        raise DriverError("C++ driver does not build from %s/schedulers/tetrisched: %s" % (core.REPO, (o + e)[-1500:]))
    return exe


def run_driver(exe, text, n):
    p = subprocess.run([exe], input=text, capture_output=True, text=True, timeout=600)
    lines = [l for l in p.stdout.split("\n") if l.strip()]
    if p.returncode != 0 or len(lines) != n:
        raise DriverError("driver rc=%s, %d answers for %d cases: %s" % (p.returncode, len(lines), n, p.stderr[-800:]))
    return [json.loads(l) for l in lines]


# --------------------------------------------------------------------------- canonical forms
_VAR_RES = [
    (re.compile(r"^e(\d+)_placed_at_\d+_for_$"), 0),
    (re.compile(r"^e(\d+)_(?:min_indicator|max_indicator|is_satisfied)$"), 0),
    (re.compile(r"^e(\d+)_(?:min|max)_start_time$"), 2),
    (re.compile(r"^e(\d+)_(?:min|max)_end_time$"), 3),
]
_ALLOC_RE = re.compile(r"^e(\d+)_using_partition_(\d+)_at_\d+$")
_W_RES = [(re.compile(r"^e(\d+)_placed_at_(\d+)_for_[0-9a-f-]+$"), 0), (re.compile(r"^e(\d+)_window_indicator$"), 0),
          (re.compile(r"^e(\d+)_start_time$"), 2), (re.compile(r"^e(\d+)_end_time$"), 3)]


class CanonError(Exception):
    pass


def var_code(name):
    m = _ALLOC_RE.match(name)
    if m:
        return [1, int(m.group(1)), int(m.group(2))]
    for rx, k in _VAR_RES:
        m = rx.match(name)
        if m:
            return [k, int(m.group(1)), 0]
    for rx, k in _W_RES:      # WindowedChoose (not modelled in Coq; never reaches canon_model's comparison with `compile`)
        m = rx.match(name)
        if m:
            return [k, int(m.group(1)), int(m.group(2)) + 1000 if m.lastindex == 2 else 999]
    raise CanonError("variable name not understood: %r" % name)


def as_int(x):
    if isinstance(x, bool) or not isinstance(x, int):
        raise CanonError("non-integral number in the C++ dump: %r" % (x,))
    return x


def canon_model(d):
    """C++ dump -> the value of Model.Strl.obs_compile."""
    if d["err"] is not None:
        return [1, 1]
    codes = [var_code(v[0]) for v in d["vars"]]
    if len({tuple(c) for c in codes}) != len(codes):
        raise CanonError("two C++ variables map to the same model variable")
    vds = []
    for c, v in zip(codes, d["vars"]):
        if v[1] not in (1, 2):
            raise CanonError("continuous variable in the dump")
        vds.append([c, 1 if v[1] == 2 else 0, as_int(v[2]), [] if v[3] is None else [as_int(v[3])]])
    rows = []
    for r in d["rows"]:
        if not r["active"]:
            continue
        terms = []
        for coef, vi in r["terms"]:
            if vi < 0:
                raise CanonError("constant term on the left-hand side of %s" % r["name"])
            terms.append([codes[vi], as_int(coef)])
        rows.append([r["sense"], as_int(r["rhs"]), sorted(terms)])
    if d["obj"] is None:
        raise CanonError("no objective function was set")
    const = 0
    ot = []
    for coef, vi in d["obj"]["terms"]:
        if vi < 0:
            const += as_int(coef)
        else:
            ot.append([codes[vi], as_int(coef)])
    return [0, [sorted(vds), sorted(rows), [const, sorted(ot)]]]


def py_sat(d, vals):
    """Independent evaluation of the dumped C++ model on an assignment."""
    for v, x in zip(d["vars"], vals):
        if v[1] == 2:
            if x not in (0, 1):
                return False
        else:
            if x < v[2] or (v[3] is not None and x > v[3]):
                return False
    for r in d["rows"]:
        if not r["active"]:
            continue
        lhs = sum(c * vals[vi] for c, vi in r["terms"])
        if not {0: lhs <= r["rhs"], 1: lhs == r["rhs"], 2: lhs >= r["rhs"]}[r["sense"]]:
            return False
    return True


def canon_solution(d, s, vals):
    """C++ read-back -> the value of Model.Strl.obs_populate."""
    if s.get("err"):
        raise CanonError("populateResults failed: %s" % s["err"])
    pls = []
    for p in s["placements"]:
        m = re.match(r"^e(\d+)$", p["name"])
        if not m or not p["placed"]:
            raise CanonError("placement not understood: %r" % (p,))
        pls.append([int(m.group(1)), as_int(p["start"]), as_int(p["end"]), sorted([list(map(as_int, a)) for a in p["allocs"]])])
    ns = []
    root = None
    for n in s["nodes"]:
        if n[1] is None:       # a node removed by an optimisation pass is never populated
            ns.append([n[0], [1]])
            continue
        ns.append([n[0], [1] if n[1] == 1 else [2, as_int(n[4])]])
        root = n if root is None or n[0] > root[0] else root     # the root has the largest id (created last)
    return [0, 1 if py_sat(d, vals) else 0, as_int(s["objective"]), as_int(s["utility"]) if s["utility"] is not None else 0,
            as_int(root[2]) if root[2] is not None else 0, as_int(root[3]) if root[3] is not None else 0,
            sorted(pls), sorted(ns)]


# --------------------------------------------------------------------------- sampling assignments (support only)
def z3_solutions(d, limit, seed):
    from z3 import z3   # the top-level package __init__ is shadowed by an unrelated "z3" distribution
    z3.set_param("smt.random_seed", seed % 1000)
    s = z3.Solver()
    s.set("random_seed", seed % 1000)
    xs = [z3.Int("x%d" % i) for i in range(len(d["vars"]))]
    codes = [var_code(v[0]) for v in d["vars"]]
    for x, v in zip(xs, d["vars"]):
        if v[1] == 2:
            s.add(x >= 0, x <= 1)
        else:
            s.add(x >= max(v[2], 0), x <= (v[3] if v[3] is not None else 64))
    for r in d["rows"]:
        if not r["active"]:
            continue
        lhs = z3.Sum([int(c) * xs[vi] for c, vi in r["terms"]]) if r["terms"] else z3.IntVal(0)
        rhs = int(r["rhs"])
        s.add({0: lhs <= rhs, 1: lhs == rhs, 2: lhs >= rhs}[r["sense"]])
    discrete = [i for i, c in enumerate(codes) if c[0] in (0, 1)]
    # prefer solutions with many satisfied indicators first: they are the informative ones
    sols = []
    want = [z3.Sum([x for x, c in zip(xs, codes) if c[0] == 0] or [z3.IntVal(0)])]
    k = len([c for c in codes if c[0] == 0])
    while len(sols) < limit and k >= 0:
        s.push()
        s.add(want[0] == k)
        while len(sols) < limit and s.check() == z3.sat:
            m = s.model()
            vals = [m.eval(x, model_completion=True).as_long() for x in xs]
            sols.append(vals)
            s.add(z3.Or([xs[i] != vals[i] for i in discrete] or [z3.BoolVal(False)]))
        s.pop()
        k -= 1
    return sols


def random_assignment(rng, d):
    vals = []
    for v in d["vars"]:
        code = var_code(v[0])
        if v[1] == 2:
            vals.append(rng.choice([0, 1, 1]))
        elif code[0] == 1:
            vals.append(rng.randint(0, int(v[3]) if v[3] is not None else 2))
        else:
            vals.append(rng.randint(0, 14))
    return vals


# --------------------------------------------------------------------------- the check
F13_WITNESS = {"pt": [[1, 1, 1]], "now": 0, "g": 4, "kind": "witness",
               "tree": ["OBJ", 3, [["C", 1, [1], 1, 0, 4, 1], ["C", 2, [1], 1, 2, 4, 1]]]}


def py_usage(pls, p, tau):
    return sum(a[2] for pl in pls if pl[1] <= tau < pl[2] for a in pl[3] if a[0] == p)


def py_alloc_usage(t, p, tau):
    return sum(a for l in leaves(t) if l[0] == "A" and l[3] <= tau < l[3] + l[4] for q, a in l[2] if q == p)


def py_capacity_violation(case, pls):
    """Pure-Python fallback of the capacity monitor: (partition, time, usage, quantity) or None."""
    times = sorted({pl[1] for pl in pls} | {leaf_span(l)[0] for l in leaves(case["tree"])})
    for p, q, _ in case["pt"]:
        for tau in times:
            u = py_usage(pls, p, tau) + py_alloc_usage(case["tree"], p, tau)
            if u > q:
                return [p, tau, u, q]
    return None


def g_placements(pls):
    return glist(["{| pl_name := %s; pl_start := %s; pl_end := %s; pl_allocs := %s |}" %
                  (gz(n), gz(s), gz(e), glist(["(%s, %s, %s)" % (gz(a), gz(b), gz(c)) for a, b, c in al]))
                  for n, s, e, al in pls])


def run(ctx):
    import time
    t0 = time.time()
    phases = ctx.cov.setdefault("phases_s", {})

    def mark(name):
        phases[name] = round(time.time() - t0, 1)
    ctx.fingerprint(SRC)
    ctx.level = "proof"
    built = ctx.build("C20", deps=["Model/Strl.v"])
    mark("coq_build")
    quick = ctx.tier == "quick"
    n_cases = 320 if quick else 4000
    n_sat = 4 if quick else 8

    try:
        exe = build_driver(ctx)
    except DriverError as e:
        ctx.broken.append({"kind": "tie", "name": "strl-driver-build", "detail": str(e)[-1500:]})
        return

    mark("driver_build")
    gen = Gen(ctx.rng)
    cases = []
    for i in range(n_cases):
        x = ctx.rng.random()
        cases.append(gen.case("aligned" if x < 0.62 else ("free" if x < 0.92 else "error")))
    ctx.rules.append(
        "S-strl: random STRL trees (Objective root; Min/Max/LessThan/Scale inner nodes, depth <= 3; Choose and Allocation "
        "leaves over 1-3 partitions with quantities 1-3, some unavailable; granularity 1-4; now 0-5 so that some leaves lie in "
        "the past; utilities 0-5; 62% with all leaf starts congruent modulo the granularity, 30% unconstrained, 8% with one "
        "injected construction error). distinct = distinct (partitions, now, granularity, tree); non-trivial = the C++ model "
        "has a capacity row with >= 2 terms and >= 2 Choose leaves")

    # ---- stage 1: model dumps
    try:
        dumps = run_driver(exe, "".join(driver_text(c, []) for c in cases), len(cases))
    except DriverError as e:
        ctx.broken.append({"kind": "tie", "name": "strl-driver-run", "detail": str(e)[-1500:]})
        return
    seen = set()
    nontriv = 0
    dist = {"aligned": 0, "free": 0, "error": 0, "cpp_errors": 0, "f13_signature": 0, "f14_signature": 0}
    comp_cases = []
    canon_fail = None
    for c, d in zip(cases, dumps):
        dist[c["kind"]] += 1
        dist["cpp_errors"] += d["err"] is not None
        c["f13"] = f13_signature(c)
        dist["f13_signature"] += c["f13"]
        c["f14"] = flt_signature(c) if d["err"] is None else False
        dist["f14_signature"] += c["f14"]
        try:
            exp = canon_model(d)
        except CanonError as e:
            canon_fail = canon_fail or {"case": c, "error": str(e)}
            continue
        key = json.dumps([c["pt"], c["now"], c["g"], c["tree"]])
        if key not in seen:
            seen.add(key)
            if d["err"] is None and sum(l[0] == "C" for l in leaves(c["tree"])) >= 2 and any(
                    r["name"].startswith("CapacityConstraint") and len(r["terms"]) >= 2 for r in d["rows"]):
                nontriv += 1
        comp_cases.append((g_case(c), exp, c))
    if canon_fail:
        ctx.broken.append({"kind": "tie", "name": "strl-dump-canonicalisation", "detail": json.dumps(canon_fail)[:1500]})
    ctx.cov["distinct_nontrivial"] = nontriv
    ctx.cov["input_distribution"] = dist
    ctx.sample({"stream": "S-strl-compile", "case": cases[0], "cpp_rows": [r["name"] for r in dumps[0].get("rows", [])][:8]})
    model_ok = True
    try:
        mism = ctx.model_stream("S-strl-compile", HEADER, "ptab * Z * Z * expr", "obs_compile", comp_cases)
        for idx, mv in mism[:3]:
            c = comp_cases[idx][2]
            ctx.violation("compile%d" % idx, {"stream": "S-strl-compile", "case": c, "implementation": comp_cases[idx][1],
                                               "model": mv, "driver_input": driver_text(c, []),
                                               "what": "the optimisation model built by the C++ lowering differs from `compile`"})
    except core.ModelEvalError as e:
        model_ok = False
        ctx.broken.append({"kind": "correspondence", "name": "S-strl-compile", "detail": str(e)[-800:]})

    mark("compile_stream")
    # ---- stage 2: assignments, read-back, monitors
    work = []          # (case, dump, assignments, n_sat)
    for c, d in zip(cases, dumps):
        if d["err"] is not None or not d["vars"]:
            continue
        try:
            sols = z3_solutions(d, n_sat, ctx.seed)
        except CanonError:
            continue
        rnd = [random_assignment(ctx.rng, d) for _ in range(2)]
        work.append((c, d, sols + rnd, len(sols)))
    try:
        outs = run_driver(exe, "".join(driver_text(c, a) for c, _, a, _ in work), len(work))
    except DriverError as e:
        ctx.broken.append({"kind": "tie", "name": "strl-driver-run2", "detail": str(e)[-1500:]})
        return
    mark("sampling")
    pop_cases = []
    mon = []           # (case, dump, vals, placements) for satisfying assignments
    n_satisfying = 0
    for (c, d, assigns, ns), o in zip(work, outs):
        codes = [var_code(v[0]) for v in d["vars"]]
        for k, (vals, s) in enumerate(zip(assigns, o["sols"])):
            try:
                exp = canon_solution(d, s, vals)
            except CanonError as e:
                ctx.broken.append({"kind": "tie", "name": "strl-readback-canonicalisation", "detail": str(e)[:600]})
                continue
            al = glist(["(%s, %s)" % (g_var(cd), gz(x)) for cd, x in zip(codes, vals)])
            pop_cases.append(("(%s, %s, %s, %s, %s)" % (g_ptab(c["pt"]), gz(c["now"]), gz(c["g"]), g_expr(c["tree"]), al),
                              exp, {"case": c, "assignment": [[v[0], x] for v, x in zip(d["vars"], vals)]}))
            if exp[1] == 1:
                n_satisfying += 1
                mon.append((c, d, vals, exp[6], exp))
    ctx.cov["input_distribution"]["assignments"] = len(pop_cases)
    ctx.cov["input_distribution"]["satisfying_assignments"] = n_satisfying
    if pop_cases:
        ctx.sample({"stream": "S-strl-populate", "case": pop_cases[0][2], "cpp_readback": pop_cases[0][1]})
    try:
        mism = ctx.model_stream("S-strl-populate", HEADER, "ptab * Z * Z * expr * list (var * Z)", "obs_populate", pop_cases)
        for idx, mv in mism[:3]:
            ctx.violation("populate%d" % idx, {"stream": "S-strl-populate", "input": pop_cases[idx][2],
                                                "implementation": pop_cases[idx][1], "model": mv,
                                                "driver_input": driver_text(pop_cases[idx][2]["case"], []),
                                                "what": "populateResults (placements / utility / satisfaction) differs from `solve`"})
    except core.ModelEvalError as e:
        model_ok = False
        ctx.broken.append({"kind": "correspondence", "name": "S-strl-populate", "detail": str(e)[-800:]})

    mark("populate_stream")
    # ---- monitors on the implementation's own placements (satisfying assignments only)
    ctx.rules.append("monitors: for every sampled assignment that satisfies the C++ model (z3, up to %d per tree) the placements "
                     "returned by the real populateResults are checked by the Gallina monitors capacity_okb (trees outside "
                     "the F13 input signature), structure_okb, lt_okb (trees outside the F14 input signature) and utility = "
                     "objective" % n_sat)
    run_monitors(ctx, mon, model_ok)
    mark("monitors")

    # ---- the lowering as the Scheduler runs it: passes, range-based discretisation (checked, not modelled)
    lowered = []
    run_passes_stage(ctx, exe, quick, model_ok, mon_out=lowered)
    mark("passes_stage")
    run_windowed_stage(ctx, exe, quick, model_ok, mon_out=lowered)
    mark("windowed_stage")
    run_monitors(ctx, lowered, model_ok, prefix="S-strl-passes-")      # passes + ranges + WindowedChoose read-backs
    mark("lowering_monitors")

    # ---- known findings: replay the witnesses on the implementation
    replay_f13(ctx, exe)
    replay_f14(ctx, exe)
    replay_f15(ctx, exe)


def run_monitors(ctx, mon, model_ok, prefix="S-strl-"):
    def asg_of(d, vals):
        return [[v[0], x] for v, x in zip(d["vars"], vals)]

    def dtext(c, vals):
        if c.get("wtext"):
            return c["wtext"]
        cfg = c.get("cfg")
        if cfg:
            return driver_text_cfg(c, [vals], cfg["ranges"], cfg["passes"], cfg["granularity"])
        return driver_text(c, [vals])

    # utility = objective (no model needed)
    for c, d, vals, pls, exp in mon:
        if exp[2] != exp[3]:
            ctx.violation(prefix.replace("S-strl-", "").replace("-", "_") + "utility", {"stream": "monitor utility=objective", "case": c, "assignment": asg_of(d, vals),
                                      "objective": exp[2], "utility": exp[3], "driver_input": dtext(c, vals),
                                      "what": "the utility reported by populateResults differs from the model objective"})
            break

    # one combined Gallina monitor per case (flags say which monitors apply to this input):
    #   capacity_okb unless the input has the F13 signature, structure_okb always, lt_okb unless F14 signature,
    #   min_okb for the not-modelled lowerings (positive utilities, no Scale; judged against the ORIGINAL tree)
    whats = {
        "capacity": "a satisfying assignment of the C++ model reads back as placements that over-subscribe a partition "
                    "[partition, time, usage, quantity]",
        "structure": "a placement read back from a satisfying assignment is not the exact image of a Choose leaf (name, "
                     "start, duration, amount, partitions), or two children of one Max are placed",
        "lessthan": "a placement below the first child of a LessThan ends after a placement below its second child starts",
        "min": "some but not all members of a Min of the ORIGINAL tree are placed"}

    def py_checks(m):
        c, pls = m[0], m[3]
        out = []
        if not c["f13"]:
            out.append(("capacity", py_capacity_violation(c, pls)))
        out.append(("structure", py_structure_violation(c, pls)))
        if not c["f14"]:
            out.append(("lessthan", py_lt_violation(c, pls)))
        if c.get("minmon") and not c["f14"]:
            out.append(("min", py_min_violation(c, pls)))
        return [(k, v) for k, v in out if v]

    name = prefix + "monitors"
    bad = None
    if model_ok:
        try:
            texts = ["(%s, %s, %s, %s, %s, %s, %s)" % (gbool(not m[0]["f13"]), gbool(not m[0]["f14"]),
                                                       gbool(bool(m[0].get("minmon")) and not m[0]["f14"]), g_ptab(m[0]["pt"]),
                                                       gz(m[0]["now"]), g_expr(m[0]["tree"]), g_placements(m[3])) for m in mon]
            bad = ctx.monitor_stream(
                name, HEADER, "bool * bool * bool * ptab * Z * expr * list placement",
                "(fun x => match x with (fc, fl, fm, pt, now, e, pls) => andb (andb (andb (orb (negb fc) (capacity_okb pt e pls)) "
                "(structure_okb pt now e pls)) (orb (negb fl) (lt_okb e pls))) (orb (negb fm) (min_okb e pls)) end)", texts)
        except core.ModelEvalError as e:
            ctx.broken.append({"kind": "monitor", "name": name, "detail": str(e)[-600:]})
    if bad is None:     # the Coq model does not evaluate: the same checks in Python
        bad = [i for i, m in enumerate(mon) if py_checks(m)]
    st = ctx.cov["streams"].setdefault(name + ":monitor", {"cases": len(mon), "failing": len(bad)})
    st["capacity_applied"] = sum(1 for m in mon if not m[0]["f13"])
    st["lessthan_applied"] = sum(1 for m in mon if not m[0]["f14"])
    seen_kinds = {}
    for b in bad:
        c, d, vals, pls, exp = mon[b]
        found = py_checks(mon[b]) or [("monitor", "the Gallina monitor fails; the Python rendering of it does not")]
        kind = found[0][0]
        seen_kinds[kind] = seen_kinds.get(kind, 0) + 1
        if seen_kinds[kind] > 3:
            continue
        ctx.violation("%s%s%d" % (prefix.replace("S-strl-", "").replace("-", "_"), kind, b),
                      {"stream": "monitor " + name, "case": c, "assignment": asg_of(d, vals), "placements": pls,
                       "violation": found[0][1], "driver_input": dtext(c, vals), "what": whats.get(kind, kind)})


def replay_f13(ctx, exe):
    c = F13_WITNESS
    try:
        d = run_driver(exe, driver_text(c, []), 1)[0]
        if d["err"] is not None:
            return
        vals = [1] * len(d["vars"])
        o = run_driver(exe, driver_text(c, [vals]), 1)[0]
        exp = canon_solution(d, o["sols"][0], vals)
    except (DriverError, CanonError, KeyError, IndexError):
        return
    v = py_capacity_violation(c, exp[6])
    if exp[1] == 1 and v:
        ctx.known("F13", "capacity rows are keyed by startTime + k*granularity per expression (CapacityConstraint.cpp:215-235): "
                         "Choose[0,4) and Choose[2,6) on a partition of quantity 1 with granularity 4 never share a row; "
                         "the all-ones assignment satisfies the model and uses %d > %d units at time %d" % (v[2], v[3], v[1]))


F14_WITNESS = {"pt": [[1, 1, 1]], "now": 0, "g": 1, "kind": "witness",
               "tree": ["OBJ", 11, [["LT", 10, ["LT", 3, ["C", 1, [1], 1, 4, 2, 1], ["C", 2, [1], 1, 6, 2, 1]],
                                     ["LT", 9, ["MAX", 5, [["C", 4, [1], 1, 8, 2, 1]]],
                                      ["LT", 8, ["C", 6, [1], 1, 0, 2, 1], ["C", 7, [1], 1, 2, 2, 1]]]]]]}
F14_ASSIGNMENT = {"e1_placed_at_4_for_": 1, "e1_using_partition_1_at_4": 1, "e2_placed_at_6_for_": 1,
                  "e2_using_partition_1_at_6": 1, "e6_placed_at_0_for_": 1, "e6_using_partition_1_at_0": 1,
                  "e7_placed_at_2_for_": 1, "e7_using_partition_1_at_2": 1, "e5_max_start_time": 8}


F14B_WITNESS = {"pt": [[1, 2, 1]], "now": 0, "g": 1, "kind": "witness",
                "tree": ["OBJ", 12, [["LT", 11, ["LT", 10, ["C", 1, [1], 1, 0, 5, 1],
                                                  ["LT", 9, ["LT", 8, ["C", 2, [1], 1, 6, 1, 1], ["MAX", 7, [["C", 3, [1], 1, 8, 1, 1]]]],
                                                   ["C", 4, [1], 1, 1, 1, 1]]],
                                      ["C", 5, [1], 1, 3, 1, 1]]]]}
F14B_ASSIGNMENT = {"e1_placed_at_0_for_": 1, "e1_using_partition_1_at_0": 1, "e5_placed_at_3_for_": 1,
                   "e5_using_partition_1_at_3": 1, "e7_max_start_time": 7}


def replay_f14(ctx, exe):
    replay_f14_one(ctx, exe, F14_WITNESS, F14_ASSIGNMENT, "F14",
                   "an unsatisfied LessThan still passes up the utility and placements of children whose indicator is "
                   "the constant 1 (Expression.cpp:1832-1835,1966-1969): LessThan(LessThan(A[4,6),B[6,8)), "
                   "LessThan(Max[C[8,10)], LessThan(A'[0,2),B'[2,4))))")
    replay_f14_one(ctx, exe, F14B_WITNESS, F14B_ASSIGNMENT, "F14b",
                   "a trivially satisfied LessThan (constant times, Expression.cpp:1823-1835) takes indicator 1 and the "
                   "constant end time of an UNSATISFIED child: LessThan(LessThan(A[0,5), LessThan(LessThan(D[6,7),Max[C[8,9)]), "
                   "W[1,2))), Z[3,4))")


def replay_f14_one(ctx, exe, c, assignment, fid, text):
    try:
        d = run_driver(exe, driver_text(c, []), 1)[0]
        if d["err"] is not None:
            return
        vals = [assignment.get(v[0], 0) for v in d["vars"]]
        o = run_driver(exe, driver_text(c, [vals]), 1)[0]
        exp = canon_solution(d, o["sols"][0], vals)
    except (DriverError, CanonError, KeyError, IndexError):
        return
    v = py_lt_violation(c, exp[6])
    if exp[1] == 1 and v and flt_signature(c):
        ctx.known(fid, "%s has a solution of utility %d whose read-back places %s (first child, ends %d) after %s "
                       "(second child, starts %d)" % (text, exp[3], "e%d" % v["first"][0], v["first"][2],
                                                      "e%d" % v["second"][0], v["second"][1]))


# =========================================================================== passes / range-based discretisation
# Stage S-strl-passes: the lowering as Scheduler::registerSTRL runs it (optimisation passes around parse, static or
# range-based capacity map) is NOT modelled in Coq.  It is checked, not proved:
#   * every solution of the compiled model (all of them for tiny models, enumerated with z3) is read back through the
#     real populateResults and judged by the model-independent Gallina monitors (capacity at every time, exact
#     amount/duration per placement, Max / LessThan structure, utility = objective);
#   * unit discretisation + purge: the placements of every solution also satisfy the rows the pass deactivated;
#   * optimum(model) == brute-force optimum of the expression under unit discretisation, unchanged by the pruning
#     passes; <= brute force under coarser / range-based discretisation, where purge may only raise it.
def f15_signature(case):
    """INPUT predicate of finding F15: some LessThan lowered through solver variables cannot hold even when nothing is
    satisfied (its happens-before row is unconditional), so the whole model is infeasible."""
    bad = [False]

    def go(t):
        """(hi_start, lo_end) reachable with every indicator 0; None for a node without utility."""
        k = t[0]
        me = kinds(case, t)
        if k == "C":
            return None if me is None else (t[4], t[4] + t[5])
        if k == "A":
            return (t[3], t[3] + t[4])
        if k == "MAX":
            ks = [kinds(case, c) for c in t[2]]
            st = [c[4] for c, kc in zip(t[2], ks) if kc is not None]
            return (min(st), 0) if st else None
        if k == "MIN":
            rs = [go(c) for c in t[2]]
            rs = [r for r in rs if r is not None]
            if not rs:
                return None
            return (min(r[0] for r in rs), max(r[1] for r in rs))
        if k == "LT":
            x, y = go(t[2]), go(t[3])
            if me is None or x is None or y is None:
                return None
            if me[2] == "v" and x[1] > y[0]:
                bad[0] = True
            return (x[0], y[1])
        if k == "SC":
            return go(t[4])
        for c in t[2]:
            go(c)
        return (0, 0)
    go(case["tree"])
    return bad[0]


def alloc_options(case, c):
    """all ways a Choose can draw its amount from its available partitions (share <= quantity)."""
    avail = {p: q for p, q, a in case["pt"] if a}
    ps = [p for p in c[2] if p in avail]

    def rec(i, left):
        if i == len(ps):
            if left == 0:
                yield []
            return
        for x in range(0, min(left, avail[ps[i]]) + 1):
            for rest in rec(i + 1, left - x):
                yield ([(ps[i], x)] if x else []) + rest
    return list(rec(0, c[3]))


def outcomes(case, t):
    """Brute-force semantics of an expression: list of (state, utility, start, end, placements) with state in
    'dead' (no utility, Expression::parse returned EXPRESSION_NO_UTILITY), 'unsat', 'sat'; placements are
    (choose id, start, end, [(partition, amount)])."""
    k = t[0]
    me = kinds(case, t)
    if k == "C":
        if me is None:
            return [("dead", 0, None, None, [])]
        s, e = t[4], t[4] + t[5]
        return [("unsat", 0, s, e, [])] + [("sat", t[6], s, e, [(t[1], s, e, al)]) for al in alloc_options(case, t)]
    if k == "A":
        return [("sat", 0, t[3], t[3] + t[4], [])]
    if k == "MAX":
        out = [("unsat", 0, None, None, [])]
        for c in t[2]:
            out += [o for o in outcomes(case, c) if o[0] == "sat"]
        return out
    if k == "SC":
        res = []
        for o in outcomes(case, t[4]):
            if o[0] == "dead":
                res.append(o)
            else:
                u = (t[2] * (1 if o[0] == "sat" else 0)) if t[3] else t[2] * o[1]
                res.append((o[0], u, o[2], o[3], o[4]))
        return res
    if k in ("MIN", "OBJ", "LT"):
        kids = t[2] if k != "LT" else [t[2], t[3]]
        kos = [outcomes(case, c) for c in kids]
        kk = [kinds(case, c) for c in kids]
        if k != "OBJ" and (me is None or any(x is None for x in kk)):
            return [("dead", 0, None, None, [])]
        var_idx = [i for i, x in enumerate(kk) if x is not None and x[2] == "v"]
        if k == "LT" and me[2] == "c":
            var_idx = []                      # trivially satisfied LessThan: no indicator row, the children are independent
        res = []
        import itertools
        for combo in itertools.product(*kos):
            if k == "OBJ":
                live = [o for o in combo if o[0] != "dead"]
                res.append(("sat", sum(o[1] for o in live), None, None, [p for o in live for p in o[4]]))
                continue
            states = {combo[i][0] for i in var_idx}
            if len(states) > 1:
                continue                      # variable-indicator children: all or none
            sat = (states == {"sat"}) or not var_idx
            if k == "LT" and me[2] == "v" and sat:
                if combo[0][3] is None or combo[1][2] is None or combo[0][3] > combo[1][2]:
                    continue                  # both satisfied: the first must end before the second starts
            util = sum(o[1] for o in combo) + (1 if (k == "MIN" and not var_idx) else 0)
            if k == "MIN":
                st = [o[2] for o in combo if o[2] is not None]
                en = [o[3] for o in combo if o[3] is not None]
                s, e = (min(st) if st else None), (max(en) if en else None)
            else:
                s, e = combo[0][2], combo[1][3]
            res.append(("sat" if sat else "unsat", util, s, e, [p for o in combo for p in o[4]]))
        return res
    raise ValueError(k)


def brute_optimum(case):
    """max utility over all outcomes whose placements (plus Allocation leaves) respect every partition at every time."""
    qty = {p: q for p, q, a in case["pt"]}
    allocs = [l for l in leaves(case["tree"]) if l[0] == "A"]
    best = None
    for o in outcomes(case, case["tree"]):
        times = sorted({p[1] for p in o[4]} | {a[3] for a in allocs})
        ok = True
        for tau in times:
            use = {}
            for (_, s, e, al) in o[4]:
                if s <= tau < e:
                    for p, x in al:
                        use[p] = use.get(p, 0) + x
            for a in allocs:
                if a[3] <= tau < a[3] + a[4]:
                    for p, x in a[2]:
                        use[p] = use.get(p, 0) + x
            if any(v > qty.get(p, 0) for p, v in use.items()):
                ok = False
                break
        if ok and (best is None or o[1] > best):
            best = o[1]
    return best


def z3_model(d):
    from z3 import z3
    xs = [z3.Int("x%d" % i) for i in range(len(d["vars"]))]
    cons = []
    for x, v in zip(xs, d["vars"]):
        if v[1] == 2:
            cons += [x >= 0, x <= 1]
        else:
            cons += [x >= max(v[2], 0), x <= (v[3] if v[3] is not None else 64)]
    for r in d["rows"]:
        if not r["active"]:
            continue
        lhs = z3.Sum([int(c) * xs[vi] for c, vi in r["terms"]]) if r["terms"] else z3.IntVal(0)
        rhs = int(r["rhs"])
        cons.append({0: lhs <= rhs, 1: lhs == rhs, 2: lhs >= rhs}[r["sense"]])
    obj = z3.Sum([int(c) * xs[vi] for c, vi in d["obj"]["terms"] if vi >= 0] or [z3.IntVal(0)]) \
        + sum(int(c) for c, vi in d["obj"]["terms"] if vi < 0)
    return z3, xs, cons, obj


def all_solutions(d, cap, seed):
    """(solutions, exhaustive?): distinct on the indicator and allocation variables."""
    z3, xs, cons, obj = z3_model(d)
    s = z3.Solver()
    s.set("random_seed", seed % 1000)
    s.add(cons)
    codes = [var_code(v[0]) for v in d["vars"]]
    disc = [i for i, c in enumerate(codes) if c[0] in (0, 1)]
    sols = []
    while len(sols) < cap and s.check() == z3.sat:
        m = s.model()
        vals = [m.eval(x, model_completion=True).as_long() for x in xs]
        sols.append(vals)
        s.add(z3.Or([xs[i] != vals[i] for i in disc] or [z3.BoolVal(False)]))
    return sols, len(sols) < cap


def model_optimum(d):
    z3, xs, cons, obj = z3_model(d)
    o = z3.Optimize()
    o.add(cons)
    h = o.maximize(obj)
    if o.check() != z3.sat:
        return None
    return o.upper(h).as_long()


class PassGen(Gen):
    """tiny fork/join trees on contended partitions."""

    def case(self, force=None):
        """force: None | 'fork' | 'join' (a tree built around one tightening LessThan) | 'xfork' | 'xjoin' | 'xroot'
        (a Min member made entirely infeasible by an ordering)"""
        r = self.rng
        self.nid = 0
        npart = r.choice([1, 1, 2])
        self.pids = r.sample([1, 2], npart)
        pt = [[p, r.choice([1, 1, 2]), 1] for p in self.pids]
        self.horizon = r.choice([6, 8])
        self.budget = r.choice([3, 4, 5])       # Choose leaves
        self.did_tight = False
        kids = []
        if force:
            self.did_tight = True
            kids.append(self.cutoff(force) if force.startswith("x") else self.tight(force == "join"))
            self.budget = r.choice([0, 0, 1])
        while self.budget > 0:
            kids.append(self.shape())
        if self.did_tight:                      # the two children of the Min run concurrently: leave room for both
            pt = [[p, 2, 1] for p in self.pids]
        return {"pt": pt, "now": 0, "g": 1, "tree": ["OBJ", self.fresh(), kids], "kind": "passes"}

    lo = 0

    def pick_start(self):
        r = self.rng
        if self.lo >= self.horizon - 1:
            return self.lo + r.randrange(0, 2)
        return r.randrange(self.lo, self.horizon)

    def leaf(self):
        r = self.rng
        self.budget -= 1
        parts = r.sample(self.pids, r.choice([1, len(self.pids)]))
        return ["C", self.fresh(), parts, r.choice([1, 1, 2]), self.pick_start(), r.choice([1, 2, 2, 3, 4]),
                r.choice([1, 2, 3])]

    def maxn(self):
        r = self.rng
        n = r.choice([1, 2, 2, 3])
        base = self.leaf()
        starts = sorted({self.pick_start() for _ in range(n)})
        ks = []
        for s in starts:     # one task offered at increasing start times (what the front-end emits)
            ks.append(["C", self.fresh(), base[2], base[3], s, base[5], max(1, base[6] - len(ks))])
        self.budget -= len(ks) - 1
        return ["MAX", self.fresh(), ks]

    def unit(self):
        return self.leaf() if self.rng.random() < 0.55 else self.maxn()

    def minn(self):
        return ["MIN", self.fresh(), [self.unit() for _ in range(self.rng.choice([2, 2, 3]))]]

    def lt(self, fx, fy):
        """LessThan whose second child mostly starts after the first can end (otherwise the unconditional
        happens-before row forces satisfaction or infeasibility: finding F15)"""
        old = self.lo
        x = fx()
        if self.rng.random() < 0.8:
            self.lo = max(old, min(leaf_span(l)[0] + leaf_span(l)[1] for l in leaves(x)))
        y = fy()
        self.lo = old
        return ["LT", self.fresh(), x, y]

    def options(self, parts, amount, starts, dur, utils):
        self.budget -= len(starts)
        return ["MAX", self.fresh(), [["C", self.fresh(), parts, amount, s, dur, u] for s, u in zip(starts, utils)]]

    def tight(self, join):
        """LessThan that TIGHTENS a Min whose children have different durations (critical-path pass): the short child is a
        Max over start times spanning the boundary, the long child a Choose; no F15 forcing (the side opposite to the Min is
        a Max, whose time variables are free when it is unsatisfied).  fork: LessThan(Max A, Min[Max B, C]);
        join: LessThan(Min[Max B, C], Max D)."""
        r = self.rng
        parts = r.sample(self.pids, r.choice([1, len(self.pids)]))
        short, long_ = r.choice([1, 1, 2]), r.choice([3, 4])
        nb = r.choice([3, 4])
        if not join:
            a0, da = r.randrange(0, 3), r.choice([1, 2])
            a = self.options(parts, 1, [a0, a0 + r.choice([1, 2])], da, [r.choice([2, 3]), 1])
            e = a0 + da                                   # earliest end of A: the boundary
            b0 = e - r.choice([0, 1, 1])
            nb = max(nb, e + (long_ - short) + r.choice([0, 1]) - b0 + 1)    # an option survives any bound up to e + long - short
            b = self.options(parts, 1, [b0 + i for i in range(nb)], short, [max(1, 3 - i) for i in range(nb)])
            self.budget -= 1
            c = ["C", self.fresh(), parts, 1, e + r.choice([0, 0, 1]), long_, r.choice([1, 2, 3])]
            kids = [b, c] if r.random() < 0.5 else [c, b]
            return ["LT", self.fresh(), a, ["MIN", self.fresh(), kids]]
        c0 = r.randrange(0, 2)
        self.budget -= 1
        c = ["C", self.fresh(), parts, 1, c0, long_, r.choice([1, 2, 3])]
        d0 = c0 + long_ + r.choice([0, 0, 1])             # earliest D start >= end of C
        d1 = d0 + r.choice([1, 2])                         # latest D start: the boundary for the ends of B
        d = self.options(parts, 1, [d0, d1], r.choice([1, 2]), [r.choice([2, 3]), 1])
        b1 = d1 - short + r.choice([0, 1, 1])              # latest B start at / beyond the boundary
        lowest = max(0, min(b1 - (nb - 1), d1 - long_ - r.choice([0, 1])))   # an option survives any bound down to d1 - long
        bs = list(range(lowest, b1 + 1))
        b = self.options(parts, 1, bs, short, [min(3, 1 + i) for i in range(len(bs))])
        kids = [b, c] if r.random() < 0.5 else [c, b]
        return ["LT", self.fresh(), ["MIN", self.fresh(), kids], d]

    def cutoff(self, kind):
        """a Min with ONE member whose every option violates an ordering while a sibling keeps a feasible option:
        'xfork'  LessThan(Max A, Min[X, C])   every option of X starts before A can end
        'xjoin'  LessThan(Min[X, C], Max D)   every option of X ends after D can start (X a Max: no F15 forcing)
        'xroot'  Min[LessThan(Max A, Max X), C]  the root Min of a task graph loses a whole chain
        The expression then has utility 0 below that Min; a pass that drops X and keeps the Min changes the meaning."""
        r = self.rng
        parts = r.sample(self.pids, r.choice([1, len(self.pids)]))
        dur = lambda: r.choice([1, 2, 2, 3])
        if kind == "xjoin":
            self.budget -= 1
            c = ["C", self.fresh(), parts, 1, r.randrange(0, 2), dur(), r.choice([1, 2, 3])]
            if r.random() < 0.4:
                c = self.options(parts, 1, [c[4], c[4] + 1], c[5], [c[6], 1])
            d0 = max(leaf_span(l)[0] + leaf_span(l)[1] for l in leaves(c)) + r.choice([0, 1])
            d1 = d0 + r.choice([0, 1, 2])
            d = self.options(parts, 1, sorted({d0, d1}), dur(), [3, 1])
            dx = dur()
            x0 = d1 - dx + 1                       # first start whose end lies beyond the latest start of D
            xs = [max(0, x0) + i for i in range(r.choice([1, 2]))]
            if xs[0] + dx <= d1:
                xs = [d1 - dx + 1 + i for i in range(len(xs))]
            x = self.options(parts, 1, xs, dx, [3, 2][:len(xs)])
            kids = [x, c] if r.random() < 0.5 else [c, x]
            return ["LT", self.fresh(), ["MIN", self.fresh(), kids], d]
        a0, da = r.randrange(1, 4), r.choice([1, 2])
        a = self.options(parts, 1, [a0, a0 + r.choice([1, 2])], da, [3, 1])
        e = a0 + da                                 # no option of A ends before e
        dx = dur()
        xs = sorted({r.randrange(0, e) for _ in range(r.choice([1, 2]))})     # every start of X lies before e
        if len(xs) == 1 and r.random() < 0.5:
            self.budget -= 1
            x = ["C", self.fresh(), parts, 1, xs[0], dx, r.choice([2, 3])]
        else:
            x = self.options(parts, 1, xs, dx, [3, 2][:len(xs)])
        cs = e + r.choice([0, 1, 2])
        if r.random() < 0.5:
            self.budget -= 1
            c = ["C", self.fresh(), parts, 1, cs, dur(), r.choice([1, 2, 3])]
        else:
            c = self.options(parts, 1, [cs, cs + 1], dur(), [3, 2])
        if kind == "xroot":
            if x[0] == "C":
                x = ["MAX", self.fresh(), [x]]
            return ["MIN", self.fresh(), [["LT", self.fresh(), a, x], c] if r.random() < 0.5 else
                    [c, ["LT", self.fresh(), a, x]]]
        kids = [x, c] if r.random() < 0.5 else [c, x]
        return ["LT", self.fresh(), a, ["MIN", self.fresh(), kids]]

    def shape(self):
        x = self.rng.random()
        if self.budget >= 3 and x < 0.30 and not self.did_tight:
            self.did_tight = True
            if self.rng.random() < 0.4:
                return self.cutoff(self.rng.choice(["xfork", "xjoin", "xroot"]))
            return self.tight(x < 0.15)
        if x < 0.20:
            return self.unit()
        if x < 0.40:
            return self.lt(self.minn, self.unit)       # join
        if x < 0.60:
            return self.lt(self.unit, self.minn)       # fork
        if x < 0.75:
            return self.lt(self.unit, self.unit)
        if x < 0.90:
            return self.minn()
        return ["MIN", self.fresh(), [self.lt(self.unit, self.unit), self.unit()]]


def gen_ranges(rng, horizon):
    """contiguous ranges from 0 whose lengths are multiples of their granularity, covering the horizon"""
    rs = []
    t = 0
    while t < horizon + 1:
        g = rng.choice([1, 2, 2, 3, 4])
        n = rng.choice([1, 1, 2])
        rs.append([t, t + g * n, g])
        t += g * n
    return rs


def driver_text_cfg(c, assigns, ranges=None, passes=None, g=None):
    txt = driver_text(dict(c, g=g if g is not None else c["g"]), assigns)
    head, rest = txt.split("\n", 1)
    extra = ""
    if ranges:
        extra += "RANGES %d %s\n" % (len(ranges), " ".join("%d %d %d" % tuple(r) for r in ranges))
    if passes:
        extra += "PASSES %d %d %d %d %d %d\n" % tuple(passes)
    return head + "\n" + extra + rest


def run_passes_stage(ctx, exe, quick, model_ok, mon_out=None):
    rng = ctx.rng
    n_trees = 28 if quick else 600
    cap = 16 if quick else 300
    gen = PassGen(rng)
    ctx.rules.append(
        "S-strl-passes: %d tiny fork/join trees (Max-of-Choose at increasing start times, LessThan(Min(..),B), "
        "LessThan(A,Min(..)), Min(LessThan(..),C); a third of them built around a LessThan that TIGHTENS a Min whose children have different "
        "durations - short child a Max over starts spanning the boundary, long child a Choose, fork and join orientation - or "
        "around a Min with one member whose every option violates an ordering while a sibling stays feasible (fork, join, root "
        "Min of a task graph); 1-2 "
        "partitions of quantity 1-2, all contended), each "
        "lowered by the real code under 9 configurations: unit discretisation without passes, with capacity-purge, "
        "critical-path, both; explicit time ranges (starts strictly inside ranges, usages crossing range ends) without and "
        "with purge; discretisation-selection pass; coarser static granularity without and with purge. ALL solutions of each "
        "model (<= %d, distinct on indicators+allocations) are read back and judged by the model-independent monitors; the "
        "model optimum is compared with the brute-force optimum of the expression" % (n_trees, cap))
    n_tight = 14 if quick else 240
    forced = ("fork", "join", "xfork", "xjoin", "xroot", "xfork", "xjoin")
    trees = [gen.case(force=forced[i % len(forced)]) for i in range(n_tight)] + [gen.case() for _ in range(n_trees - n_tight)]
    jobs = []       # (tree index, config name, ranges, passes, g)
    for ti, c in enumerate(trees):
        rs = gen_ranges(rng, max(leaf_span(l)[0] for l in leaves(c["tree"])) + 1)
        gco = rng.choice([2, 3, 4])
        c["ranges"] = rs
        c["gco"] = gco
        for name, ranges, passes, g in [
                ("unit", None, None, 1), ("unit+purge", None, [0, 0, 1, 1, 5, 80], 1),
                ("unit+cp", None, [1, 0, 0, 1, 5, 80], 1), ("unit+cp+purge", None, [1, 0, 1, 1, 5, 80], 1),
                ("ranges", rs, None, 1), ("ranges+purge", rs, [0, 0, 1, 1, 5, 80], 1),
                ("dd", None, [0, 1, 0, 1, rng.choice([2, 3, 5]), 80], 1),
                ("coarse", None, None, gco), ("coarse+purge", None, [0, 0, 1, 1, 5, 80], gco)]:
            jobs.append((ti, name, ranges, passes, g))
    try:
        dumps = run_driver(exe, "".join(driver_text_cfg(trees[ti], [], r, p, g) for ti, _, r, p, g in jobs), len(jobs))
    except DriverError as e:
        ctx.broken.append({"kind": "tie", "name": "strl-driver-passes", "detail": str(e)[-1500:]})
        return
    work = []
    stats = {"configs": len(jobs), "cpp_errors": 0, "solutions": 0, "exhaustive_models": 0, "optimum_checks": 0,
             "deactivated_rows": 0, "f13": 0, "f14": 0, "f15": 0}
    for (ti, name, ranges, passes, g), d in zip(jobs, dumps):
        if d["err"] is not None or not d["vars"] or d["obj"] is None:
            stats["cpp_errors"] += d["err"] is not None
            continue
        try:
            sols, exhaustive = all_solutions(d, cap, ctx.seed)
        except CanonError as e:
            ctx.broken.append({"kind": "tie", "name": "strl-passes-canon", "detail": str(e)[:400]})
            continue
        stats["exhaustive_models"] += exhaustive
        stats["deactivated_rows"] += sum(1 for r in d["rows"] if not r["active"])
        work.append((ti, name, ranges, passes, g, d, sols))
    try:
        outs = run_driver(exe, "".join(driver_text_cfg(trees[ti], sols, r, p, g) for ti, _, r, p, g, _, sols in work), len(work))
    except DriverError as e:
        ctx.broken.append({"kind": "tie", "name": "strl-driver-passes2", "detail": str(e)[-1500:]})
        return
    # ---- the range-based registration IS modelled (compile_dyn): row-by-row comparison
    dyn_cases = []
    for (ti, name, ranges, passes, g), d in zip(jobs, dumps):
        if name == "ranges":
            try:
                dyn_cases.append((g_case_dyn(trees[ti], ranges), canon_model(d), {"case": trees[ti], "ranges": ranges}))
            except CanonError as e:
                ctx.broken.append({"kind": "tie", "name": "strl-ranges-canon", "detail": str(e)[:400]})
    extra_gen = Gen(rng)
    extra = []
    for _ in range(60 if quick else 600):
        c = extra_gen.case("free" if rng.random() < 0.9 else "error")
        ls = leaves(c["tree"])
        hz = (max(leaf_span(l)[0] for l in ls) + 1) if ls else 4
        c["ranges"] = gen_ranges(rng, hz if rng.random() < 0.85 else max(1, hz - 3))
        extra.append(c)
    try:
        edumps = run_driver(exe, "".join(driver_text_cfg(c, [], c["ranges"], None, 1) for c in extra), len(extra))
        for c, d in zip(extra, edumps):
            dyn_cases.append((g_case_dyn(c, c["ranges"]), canon_model(d), {"case": c, "ranges": c["ranges"]}))
    except (DriverError, CanonError) as e:
        ctx.broken.append({"kind": "tie", "name": "strl-ranges-extra", "detail": str(e)[-600:]})
    if model_ok and dyn_cases:
        try:
            mism = ctx.model_stream("S-strl-compile-ranges", HEADER, "ptab * Z * ranges * expr", "obs_compile_dyn", dyn_cases)
            for idx, mv in mism[:3]:
                info = dyn_cases[idx][2]
                ctx.violation("ranges%d" % idx, {"stream": "S-strl-compile-ranges", "case": info["case"], "ranges": info["ranges"],
                                                  "implementation": dyn_cases[idx][1], "model": mv,
                                                  "driver_input": driver_text_cfg(info["case"], [], info["ranges"], None, 1),
                                                  "what": "the model built by the C++ lowering under range-based discretisation "
                                                          "differs from `compile_dyn`"})
        except core.ModelEvalError as e:
            ctx.broken.append({"kind": "correspondence", "name": "S-strl-compile-ranges", "detail": str(e)[-800:]})

    # how many of the generated range inputs satisfy the hypothesis of theorem C20_capacity_ranges
    if model_ok:
        try:
            hyp = [g_case_dyn(trees[ti], ranges) for (ti, name, ranges, passes, g) in jobs if name == "ranges"]
            nohyp = ctx.monitor_stream("S-strl-ranges-hypothesis", HEADER, "ptab * Z * ranges * expr",
                                       "(fun x => match x with (pt, now, rs, e) => coveringb (dyn_slots rs) (grid_key rs) e end)", hyp)
            stats["ranges_inputs"] = len(hyp)
            stats["ranges_inputs_satisfying_covering_hypothesis"] = len(hyp) - len(nohyp)
        except core.ModelEvalError as e:
            ctx.broken.append({"kind": "monitor", "name": "coveringb", "detail": str(e)[-600:]})

    mon = []
    opt = {}
    purge_seen = set()
    n_opt_viol = 0
    for (ti, name, ranges, passes, g, d, sols), o in zip(work, outs):
        c = dict(trees[ti], g=g)
        c["f13"] = (ranges is None and name != "dd" and f13_signature(c))
        c["f14"] = flt_signature(c)
        c["cfg"] = {"name": name, "ranges": ranges, "passes": passes, "granularity": g}
        c["minmon"] = True
        pcodes = [var_code(v[0]) for v in d["vars"]]
        for vals, s in zip(sols, o["sols"]):
            try:
                exp = canon_solution(d, s, vals)
            except CanonError as e:
                ctx.broken.append({"kind": "tie", "name": "strl-passes-readback", "detail": str(e)[:400]})
                continue
            stats["solutions"] += 1
            mon.append((c, d, vals, exp[6], exp))
            # purge: the deactivated rows must be implied (same feasible set)
            for r in d["rows"]:
                if name.startswith("unit") and not r["active"] and (ti, name) not in purge_seen and len(purge_seen) < 3:
                    # usage of Chooses that are not read back (sub-expressions without utility stay satisfiable in the
                    # model, with or without the pass) does not count
                    placed = {pl[0] for pl in exp[6]}
                    lhs = sum(cf * vals[vi] for cf, vi in r["terms"] if pcodes[vi][0] != 1 or pcodes[vi][1] in placed)
                    if not {0: lhs <= r["rhs"], 1: lhs == r["rhs"], 2: lhs >= r["rhs"]}[r["sense"]]:
                        purge_seen.add((ti, name))
                        ctx.violation("purge%d_%s" % (ti, name.replace("+", "_")),
                                      {"stream": "S-strl-passes purge", "case": c, "row": r["name"],
                                       "assignment": [[v[0], x] for v, x in zip(d["vars"], vals)], "placements": exp[6],
                                       "driver_input": driver_text_cfg(c, [vals], ranges, passes, g),
                                       "what": "the placements read back from a solution of the model after the capacity-purge pass "
                                               "violate a capacity row the pass deactivated: the pass removed a needed constraint"})
                        break
        opt[(ti, name)] = model_optimum(d)
    ctx.cov["input_distribution"]["passes_stage"] = stats
    if mon:
        ctx.sample({"stream": "S-strl-passes", "case": mon[0][0], "placements": mon[0][3]})
    if mon_out is not None:          # judged together with the other not-modelled lowerings (one Coq run)
        mon_out += mon
    else:
        run_monitors(ctx, mon, model_ok, prefix="S-strl-passes-")
    # optimum relations
    for ti, c in enumerate(trees):
        if flt_signature(c):
            stats["f14"] += 1
            continue
        if f15_signature(c):
            stats["f15"] += 1
            continue
        base = opt.get((ti, "unit"))
        if base is None and (ti, "unit") not in opt:
            continue
        brute = brute_optimum(c)
        # unit discretisation is exact: the optimum equals the brute-force optimum and the pruning passes keep it.
        # Coarser / range-based discretisation over-approximates usage: optimum <= brute force; there the purge pass may
        # only remove over-approximation: optimum(no purge) <= optimum(purge) <= brute force.
        rel = [("unit", "==", brute), ("unit+purge", "==", base), ("unit+cp", "==", base), ("unit+cp+purge", "==", base),
               ("ranges", "<=", brute), ("ranges+purge", "<=", brute), ("ranges+purge", ">=", opt.get((ti, "ranges"))),
               ("dd", "<=", brute), ("coarse+purge", ">=", opt.get((ti, "coarse")))]
        if not f13_signature(dict(c, g=c["gco"])):
            rel += [("coarse", "<=", brute), ("coarse+purge", "<=", brute)]
        for name, op, ref in rel:
            if (ti, name) not in opt:
                continue
            v = opt[(ti, name)]
            stats["optimum_checks"] += 1
            ok = (v is not None and ref is not None and {"==": v == ref, "<=": v <= ref, ">=": v >= ref}[op]) or \
                 (v is None and ref is None)
            if not ok and n_opt_viol < 3:
                n_opt_viol += 1
                ctx.violation("optimum%d_%s" % (ti, name.replace("+", "_")),
                              {"stream": "S-strl-passes optimum", "case": c, "configuration": name,
                               "model_optimum": v, "relation": op, "reference": ref, "brute_force_optimum": brute,
                               "optimum_without_passes": base,
                               "reference_is": "brute-force optimum of the expression" if op != ">=" and name in ("unit", "ranges", "ranges+purge", "dd", "coarse", "coarse+purge") else "optimum without the pass",
                               "driver_input": driver_text_cfg(c, [], c["ranges"] if name.startswith("ranges") else None,
                                                               None, c["gco"] if name.startswith("coarse") else 1),
                               "what": "the optimum of the compiled model is not %s the reference" % op})


F15_WITNESS = {"pt": [[1, 2, 1]], "now": 0, "g": 1, "kind": "witness",
               "tree": ["OBJ", 6, [["LT", 4, ["C", 1, [1], 1, 0, 5, 1], ["MAX", 3, [["C", 2, [1], 1, 2, 1, 1]]]],
                                   ["C", 5, [1], 1, 0, 1, 1]]]}


def replay_f15(ctx, exe):
    c = F15_WITNESS
    try:
        d = run_driver(exe, driver_text(c, []), 1)[0]
        if d["err"] is not None:
            return
        sols, _ = all_solutions(d, 1, 1)
        brute = brute_optimum(c)
    except (DriverError, CanonError, KeyError, IndexError):
        return
    if not sols and brute is not None and f15_signature(c):
        ctx.known("F15", "the happens-before row of a LessThan lowered through solver variables is unconditional "
                         "(Expression.cpp:1915-1921): Objective[LessThan(A[0,5), Max[C[2,3)]), D[0,1)] compiles to a model with NO "
                         "solution (e3_max_start_time <= 2 but >= 5 is required), although the expression has a valid schedule of "
                         "utility %d (D alone)" % brute)


# =========================================================================== WindowedChoose as its documented expansion
def w_options(t):
    """start times WindowedChooseExpression::parse emits (Expression.cpp:735-742, 799-819)"""
    _, n, parts, amount, start, dur, end, g, util = t
    up = lambda x: -((-x) // g) * g
    lower, upper, tb_end = up(start), up(end), up(end + dur)
    return [x for x in range(lower, upper + 1, g) if x + dur <= tb_end]


def expand_w(t, unique=False):
    """WindowedChoose -> Max over one Choose per option ("equivalent to a set of ChooseExpressions modulated by a
    MaxExpression", Expression.hpp:158-165); the Chooses keep the name of the WindowedChoose."""
    k = t[0]
    if k == "W":
        return ["MAX", t[1] + 5000, [["C", (t[1] * 100 + i + 1) if unique else t[1], t[2], t[3], x, t[5], t[8]]
                                    for i, x in enumerate(w_options(t))]]
    if k in ("MIN", "MAX", "OBJ"):
        return [k, t[1], [expand_w(c, unique) for c in t[2]]]
    if k == "LT":
        return ["LT", t[1], expand_w(t[2], unique), expand_w(t[3], unique)]
    if k == "SC":
        return ["SC", t[1], t[2], t[3], expand_w(t[4], unique)]
    return t


class WGen(PassGen):
    def unit(self):
        r = self.rng
        if r.random() < 0.5:
            self.budget -= 2
            g = r.choice([1, 2, 2, 3])
            start = self.pick_start()
            parts = r.sample(self.pids, r.choice([1, len(self.pids)]))
            return ["W", self.fresh(), parts, r.choice([1, 1, 2]), start, r.choice([1, 2, 3]), start + r.choice([0, 2, 3, 5]), g,
                    r.choice([1, 2, 3])]
        return PassGen.unit(self)


F16_WITNESS_TEXT = "CASE 3 2\nPART 1 1 1\nNODE 1 WCHOOSE e1 1 0 2 6 2 1 1 1\nNODE 2 OBJ e2 1 1\nROOT 2\nEND\n"


def run_windowed_stage(ctx, exe, quick, model_ok, mon_out=None):
    rng = ctx.rng
    n_trees = 14 if quick else 250
    cap = 24 if quick else 200
    gen = WGen(rng)
    ctx.rules.append("S-strl-windowed (checked, not modelled): %d tiny trees with WindowedChoose leaves; the optimum of the "
                     "model the C++ builds equals the optimum of the model it builds for the documented expansion (Max over "
                     "one Choose per option) and the brute-force optimum; all solutions are read back and judged by the monitors "
                     "against the expansion" % n_trees)
    trees = []
    while len(trees) < n_trees:
        c = gen.case()
        if any(n[0] == "W" and not w_options(n) for n in nodes_w(c["tree"])):
            continue
        if any(n[0] == "W" for n in nodes_w(c["tree"])):
            trees.append(c)
    exps = [dict(c, tree=expand_w(c["tree"])) for c in trees]
    try:
        dw = run_driver(exe, "".join(driver_text(c, []) for c in trees), len(trees))
        de = run_driver(exe, "".join(driver_text(dict(c, tree=expand_w(c["tree"], True)), []) for c in trees), len(trees))
    except DriverError as e:
        ctx.broken.append({"kind": "tie", "name": "strl-driver-windowed", "detail": str(e)[-1200:]})
        return
    stats = {"trees": n_trees, "solutions": 0, "optimum_checks": 0, "skipped_f14_f15": 0}
    work = []
    for c, x, d, dx in zip(trees, exps, dw, de):
        if d["err"] is not None or dx["err"] is not None:
            if (d["err"] is None) != (dx["err"] is None):
                ctx.violation("windowed_err", {"stream": "S-strl-windowed", "case": c, "windowed": d["err"], "expansion": dx["err"],
                                               "driver_input": driver_text(c, []),
                                               "what": "lowering fails for the WindowedChoose tree or its expansion, not both"})
            continue
        x["f13"] = False
        x["f14"] = flt_signature(x)
        x["minmon"] = True
        sols, _ = all_solutions(d, cap, ctx.seed)
        work.append((c, x, d, sols))
        if x["f14"] or f15_signature(x):
            stats["skipped_f14_f15"] += 1
            continue
        ow, oe, br = model_optimum(d), model_optimum(dx), brute_optimum(x)
        stats["optimum_checks"] += 1
        if not (ow == oe == br):
            ctx.violation("windowed_opt%d" % len(work), {"stream": "S-strl-windowed", "case": c, "expansion": x["tree"],
                                                         "optimum_windowed": ow, "optimum_expansion": oe, "brute_force": br,
                                                         "driver_input": driver_text(c, []),
                                                         "what": "the optimum for a WindowedChoose differs from its documented expansion"})
    try:
        outs = run_driver(exe, "".join(driver_text(c, sols) for c, x, d, sols in work), len(work))
    except DriverError as e:
        ctx.broken.append({"kind": "tie", "name": "strl-driver-windowed2", "detail": str(e)[-1200:]})
        return
    mon = []
    for (c, x, d, sols), o in zip(work, outs):
        for vals, sres in zip(sols, o["sols"]):
            try:
                exp = canon_solution(d, sres, vals)
            except CanonError as e:
                ctx.broken.append({"kind": "tie", "name": "strl-windowed-readback", "detail": str(e)[:400]})
                continue
            stats["solutions"] += 1
            xm = dict(x, windowed_tree=c["tree"], wtext=driver_text(c, [vals]))
            mon.append((xm, d, vals, exp[6], exp))
    ctx.cov["input_distribution"]["windowed_stage"] = stats
    if mon_out is not None:
        mon_out += mon
    else:
        run_monitors(ctx, mon, model_ok, prefix="S-strl-windowed-")
    # finding F16: options in the past
    try:
        d = run_driver(exe, F16_WITNESS_TEXT, 1)[0]
        if d["err"] is None:
            want = {"e1_using_partition_1_at_0": 1, "e1_window_indicator": 1, "e1_end_time": 2}
            vals = [1 if re.match(r"^e1_placed_at_0_for_", v[0]) else want.get(v[0], 0) for v in d["vars"]]
            o = run_driver(exe, F16_WITNESS_TEXT.replace("END\n", "ASSIGN %d %s\nEND\n" % (len(vals), " ".join(map(str, vals)))), 1)[0]
            pl = o["sols"][0]["placements"]
            if py_sat(d, vals) and pl and pl[0]["start"] < 3:
                ctx.known("F16", "WindowedChooseExpression::parse (Expression.cpp:769-819) only compares the current time with the END "
                                 "of the window: with now = 3 a window [0,6] at granularity 2 still offers the start times 0 and 2; the "
                                 "assignment placed_at_0 = 1 satisfies the model and reads back as a placement [%d,%d) in the past; its "
                                 "documented expansion (one Choose per start time) gives those no utility (Expression.cpp:528-535)"
                          % (pl[0]["start"], pl[0]["end"]))
    except (DriverError, KeyError, IndexError):
        pass


def nodes_w(t):
    return [t] if t[0] == "W" else nodes(t) if t[0] in ("C", "A") else \
        [t] + [n for c in (t[2] if t[0] in ("MIN", "MAX", "OBJ") else [t[2], t[3]] if t[0] == "LT" else [t[4]]) for n in nodes_w(c)]
