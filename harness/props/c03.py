"""C03 — execution takes exactly the chosen runtime; clock monotone; events in time order; starts when chosen."""
import simcheck
import simmon

TRUSTED = simcheck.TRUSTED_SIM + [
    "Model/SimQ.v extends the machine with the pending-event multiset; its queue operations are observed on the simulator's "
    "own EventQueue object (add_event / next / remove_event / reheapify) and fed to the machine (stream S-simq)",
    "the clause 'starts exactly at the chosen time when ready and the pool can hold it' is decided by the monitor on the "
    "implementation's logs only"]


def run(ctx):
    import core
    import json
    import simcommon
    worlds, runs = simcheck.run_sim_property(
        ctx, ["C03"], lambda r, w: simmon.mon_c03(r, w["flags"].get("runtime_variance", 0)),
        "clock / runtime / start-time clause of C03 fails on the implementation's own call log",
        deps=["Model/SimQ.v"])
    # the machine with the event queue must accept the same runs (queue operations included)
    try:
        mism, fed = simcommon.machine_q_stream(ctx, worlds, runs)
    except core.ModelEvalError as e:
        ctx.broken.append({"kind": "correspondence", "name": "S-simq (machine does not evaluate)", "detail": str(e)[-500:]})
        mism = []
    for (i, mv, exp) in mism[:3]:
        rej = mv[0] if isinstance(mv, list) and mv else None
        ctx.violation("simq_world%d" % i, {
            "stream": "S-simq", "world": worlds[i], "model": mv, "implementation": exp,
            "what": ("the machine with the event queue rejects the implementation's log at entry %s: an event queued in the "
                     "past, a popped event that was not minimal / not at the clock, a handled event that was not the one "
                     "popped, or a placement event earlier than the chosen time" % rej[0]) if rej else
                    "accepted but the final state differs"})
