"""C03 — execution takes exactly the chosen runtime; clock monotone; events in time order; starts when chosen."""
import simcheck
import simmon

TRUSTED = simcheck.TRUSTED_SIM + [
    "Model/SimQ.v extends the machine with the pending-event multiset; its queue operations are observed on the simulator's "
    "own EventQueue object (add_event / next / remove_event / reheapify) and fed to the machine (stream S-simq)",
    "the clause 'starts exactly at the chosen time when ready and the pool can hold it' is a theorem about the handler layer "
    "Model/SimHandlers.v (Simulator.__handle_task_placement + WorkerPool.place_task written out as functions of the machine "
    "state; hand-written, readiness and Task.remaining_time translated from source), tied by the stream S-handlers: for every "
    "TASK_PLACEMENT event handled in the generated simulations the outcome computed from the machine state (start on which "
    "worker / re-queue at which time / drop) must equal the outcome observed on the implementation; requests that name resource "
    "units by id, batch strategies and Clockwork worlds (loaded profiles hold resources) are outside the exact part of the "
    "handler model and are judged by the monitor on the implementation's logs only"]


def run(ctx):
    import core
    import json
    import simcommon
    worlds, runs = simcheck.run_sim_property(
        ctx, ["C03"], lambda r, w: simmon.mon_c03(r, w["flags"].get("runtime_variance", 0)),
        "clock / runtime / start-time clause of C03 fails on the implementation's own call log",
        deps=["Model/SimQ.v"])
    ctx.build("C03_handlers", deps=["Model/Sim.v", "Model/SimQ.v", "Model/SimRows.v", "Model/SimHandlers.v"])
    # the machine with the event queue must accept the same runs (queue operations included)
    try:
        mism, fed = simcommon.machine_q_stream(ctx, worlds, runs)
    except core.ModelEvalError as e:
        ctx.broken.append({"kind": "correspondence", "name": "S-simq (machine does not evaluate)", "detail": str(e)[-500:]})
        mism = []
    for (i, mv, exp) in mism[:3]:
        rej = mv[0] if isinstance(mv, list) and mv else None
        ctx.violation("simq_world%d" % i, {
            "stream": "S-simq", "world": worlds[i], "model": mv, "implementation": exp,
            "what": ("the machine with the event queue rejects the implementation's log at entry %s: an event queued in the "
                     "past, a popped event that was not minimal / not at the clock, a handled event that was not the one "
                     "popped, or a placement event earlier than the chosen time" % rej[0]) if rej else
                    "accepted but the final state differs"})

    # the handler layer: predicted outcome of every TASK_PLACEMENT handler vs the observed one
    ctx.rules.append("S-handlers: every TASK_PLACEMENT event handled in the S-sim runs (non-Clockwork worlds): Model/SimHandlers.v "
                     "computes from the machine state whether the task is started (and on which worker: named or first fit in "
                     "pool order), re-queued (and at which time) or dropped; compared inside Coq with what the implementation did")
    try:
        hm, hfed, hkinds = simcommon.handlers_stream(ctx, worlds, runs,
                                                     outside=lambda w: w["flags"].get("scheduler") == "Clockwork")
    except core.ModelEvalError as e:
        ctx.broken.append({"kind": "correspondence", "name": "S-handlers (handler model does not evaluate)", "detail": str(e)[-500:]})
        hm = []
    names = {0: "outside the exact part", 1: "started on worker", 2: "re-queued at", 3: "dropped", 4: "Python raises"}
    for (i, j, mo, io) in hm[:3]:
        if j is None:
            continue            # the machine rejected the call log: reported by S-simq above
        def say(o):
            return "nothing" if o is None else "%s %s" % (names.get(o[0], "?"), o[1] if len(o) > 1 else "")
        ctx.violation("handler_world%d" % i, {
            "stream": "S-handlers", "world": worlds[i], "handler_ordinal": j, "model": mo, "implementation": io,
            "what": "TASK_PLACEMENT handler no. %d of the run: the implementation's outcome (%s) is not the one that follows "
                    "from the state (%s): a ready task that fits its pool must start at the time of its placement event on the "
                    "named / first fitting worker, a task waiting for parents is re-queued at clock + max(1, max remaining time "
                    "of the parents), a refused one at clock + 1, a cancelled one is dropped" % (j, say(io).strip(), say(mo).strip())})

    # ---- S-sim-retract: retraction-heavy worlds (queued placements of several earlier invocations withdrawn and re-issued):
    # monitor, machine with the event queue (a pop that is not minimal / not at the clock is rejected), handler layer
    import random
    import simgen
    rrng = random.Random("C03-retract/%s" % ctx.seed)
    rworlds = [simgen.gen_retract_world(rrng) for _ in range(24 if ctx.tier == "quick" else 240)]
    rworlds = [w for w in rworlds if "zero_runtime" not in simgen.signature(w)]
    rruns = simcommon.run_worlds(rworlds)
    ctx.rules.append("S-sim-retract: 6-12 single-task graphs released at staggered instants, fuzzing policy in retracting mode with a "
                     "scheduler frequency of 1-7us: TASK_PLACEMENT events queued by several earlier invocations are removed from the "
                     "event queue and re-issued; judged by the C03 monitor, the machine with the event queue and the handler layer")
    removes = sum(1 for r in rruns for e in r["log"] if e[0] == "qremove")
    rfail = 0
    for i, (w, r) in enumerate(zip(rworlds, rruns)):
        msgs = simmon.mon_c03(r, 0) if r["log"] else []
        if r["status"] not in ("ended", "harness-timeout") and not msgs:
            msgs = ["the run did not end normally: %s %s" % (r["status"], (r.get("error") or "")[:200])]
        if msgs:
            rfail += 1
            if rfail <= 3:
                ctx.violation("retract_world%d" % i, {"stream": "S-sim-retract monitor", "failures": msgs[:5], "world": w,
                                                     "run_status": r["status"],
                                                     "what": "clock / event order / start-time clause of C03 fails in a run in which queued "
                                                             "placements are withdrawn and re-issued"})
    ctx.cov["streams"]["S-sim-retract:impl-monitor"] = {"cases": len(rworlds), "failing": rfail, "queue_removals": removes}
    try:
        mism, fed = simcommon.machine_q_stream(ctx, rworlds, rruns, stream="S-simq-retract", every=1)
        for (i, mv, exp) in mism[:3]:
            rej = mv[0] if isinstance(mv, list) and mv else None
            ctx.violation("retract_simq_world%d" % i, {
                "stream": "S-simq-retract", "world": rworlds[i], "model": mv, "implementation": exp,
                "what": ("the machine with the event queue rejects the implementation's log at entry %s (an event popped that was "
                         "not minimal / not at the clock, or queued in the past)" % rej[0]) if rej else
                        "accepted but the final state differs"})
        hm, _hfed, _k = simcommon.handlers_stream(ctx, rworlds, rruns, stream="S-handlers-retract")
        for (i, j, mo, io) in hm[:3]:
            if j is not None:
                ctx.violation("retract_handler_world%d" % i, {"stream": "S-handlers-retract", "world": rworlds[i], "handler_ordinal": j,
                                                             "model": mo, "implementation": io,
                                                             "what": "outcome of a TASK_PLACEMENT handler differs from the handler layer"})
    except core.ModelEvalError as e:
        ctx.broken.append({"kind": "correspondence", "name": "S-simq-retract (machine does not evaluate)", "detail": str(e)[-500:]})
