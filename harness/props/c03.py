"""C03 — execution takes exactly the chosen runtime; clock monotone; events in time order; starts when chosen."""
import simcheck
import simmon

TRUSTED = simcheck.TRUSTED_SIM + [
    "the clauses 'never starts earlier than the time its scheduler chose' and 'starts exactly then when ready and the pool "
    "can hold it' are decided by the monitor on the implementation's logs only (the machine does not model the event queue; "
    "the queue ordering itself is C16)"]


def run(ctx):
    simcheck.run_sim_property(ctx, ["C03"], lambda r, w: simmon.mon_c03(r, w["flags"].get("runtime_variance", 0)),
                              "clock / runtime / start-time clause of C03 fails on the implementation's own call log")
