"""C12 (ILP part) — deadline enforcement of the ILP planner in task-by-task mode."""
from props import c10_ilp as common

TRUSTED = common.TRUSTED


def run(ctx):
    # half of the worlds in the property's own mode (task-by-task, deadlines enforced), half mixed
    built, worlds, results = common.common_prelude(ctx, ctx.pid.split("_")[0] + "_ilp", 80, 1200, profile="taskwise")
    common.stream_csys(ctx, worlds, results)
    common.stream_plan(ctx, worlds, results)
    common.run_sat_monitor(ctx, worlds, results)
    n = common.run_monitor(ctx, worlds, results, "M-c12", "(fun i p => andb (c12_check i p) (c12_hopeless_check i p))",
                           "a feasible point of the implementation's ILP places a task whose start + chosen runtime exceeds "
                           "its deadline, or places a hopeless task (C12)")
    ctx.cov["input_distribution"]["monitored_points"] = n
