"""C12 (ILP part) — deadline enforcement of the ILP planner in task-by-task mode; the batching mode is NOT modelled: an
implementation-side monitor judges the returned Placements of batching worlds."""
from props import c10_ilp as common
from props.c10_ilp import g_instance, g_plan, HEADER
import core

TRUSTED = common.TRUSTED + [
    "batching mode (--scheduler_enable_batching: BatchTask, _create_batch_task_variables) is NOT modelled and no theorem covers "
    "it; only a Python monitor on the Placements returned for generated batching worlds (every placed member meets its own "
    "deadline, one decision per member, no start before now)",
]


def gen_batch_world(rng):
    """A batch of 2-3 SCHEDULED members (one shared WorkProfile, one BatchStrategy) with DIFFERENT deadlines, planned for the
    near future on a contended worker, and a tight new task arriving just before the batch starts: re-planning the batch is
    only legal while every member still meets its own deadline."""
    now = rng.choice([5, 8])
    rt = rng.choice([5, 6])
    start = now + 1
    n = rng.choice([2, 3, 3])
    tight = start + rt + rng.choice([0, 0, 1])
    members = [{"id": i, "deadline": tight if i == 0 else tight + rng.choice([10, 18, 30])} for i in range(n)]
    rng.shuffle(members)
    for i, m in enumerate(members):
        m["id"] = i
    rt_new = rng.choice([2, 3])
    new = [{"id": n, "rt": rt_new, "demand": 1, "deadline": now + 1 + rt_new + rng.choice([0, 1]), "release": now}]
    return {"kind": "batch", "seed": rng.randrange(10 ** 6), "now": now, "cap": 1, "demand": 1, "rt": rt, "start": start,
            "members": members, "new": new}


def batch_ok(w, r):
    """every task gets exactly one decision; a placed task starts at or after now and meets ITS OWN deadline"""
    if "plan" not in r:
        return "error" not in r and False
    ids = [m["id"] for m in w["members"]] + [n["id"] for n in w["new"]]
    got = [p[0] for p in r["plan"]]
    if sorted(got) != sorted(ids):
        return False
    dl = dict((m["id"], m["deadline"]) for m in w["members"] + w["new"])
    for tid, placed, t, rt in r["plan"]:
        if placed and (t < w["now"] or t + rt > dl[tid]):
            return False
    return True


def batch_monitor(ctx):
    n = 16 if ctx.tier == "quick" else 160
    worlds = [gen_batch_world(ctx.rng) for _ in range(n)]
    results = common.run_worlds(worlds, probe=False)
    bad = 0
    moved = 0
    for w, r in zip(worlds, results):
        if "error" in r or "adapter_error" in r:
            ctx.violation("batchraise%d" % worlds.index(w), {"stream": "M-batch", "world": w, "what": "schedule() (batching) raised: "
                                                               + str(r.get("error", r.get("adapter_error"))), "traceback": r.get("traceback")})
            bad += 1
        elif not batch_ok(w, r):
            if bad < 3:
                ctx.violation("batch%d" % worlds.index(w), {"stream": "M-batch", "world": w, "returned_placements": r["plan"],
                                                            "what": "batching mode: a member of a re-planned batch is placed so that it ends after ITS OWN "
                                                                    "deadline (or a decision is missing / duplicated / before now) although deadlines are enforced (C12)"})
            bad += 1
        moved += any(p[1] and p[0] < len(w["members"]) and p[2] != w["start"] for p in r.get("plan", []))
    st = ctx.cov["streams"].setdefault("M-batch:monitor", {"cases": 0, "failing": 0})
    st["cases"] += len(worlds)
    st["failing"] += bad
    ctx.cov["input_distribution"]["batch_worlds"] = len(worlds)
    ctx.cov["input_distribution"]["batch_worlds_where_the_batch_was_moved"] = moved
    ctx.rules.append("M-batch (implementation side only, batching is not modelled): a SCHEDULED batch of 2-3 members with different "
                     "deadlines (tightest = planned end + 0..1) on a 1-slot worker and a tight new task released one step before the batch "
                     "starts, ILPScheduler(batching=True, enforce_deadlines=True); the returned Placements must give every task one decision "
                     "and every placed member its own deadline")


def returned_monitor(ctx, worlds, results):
    """c12_check on the RETURNED placements (not only on the solver's values)"""
    cases, where = [], []
    for i, (w, r) in enumerate(zip(worlds, results)):
        if "plan" in r and r.get("order"):
            pl = [[t, d] for t, d in r["plan"]]
            cases.append("(%s, %s)" % (g_instance(w, r), g_plan(pl)))
            where.append(i)
    try:
        bad = ctx.monitor_stream("M-c12r", HEADER, "instance * plan", "(fun p => andb (c12_check (fst p) (snd p)) (c12_hopeless_check (fst p) (snd p)))",
                                 cases, shard=100)
    except core.ModelEvalError as e:
        ctx.broken.append({"kind": "monitor", "name": "M-c12r", "detail": str(e)[-800:]})
        bad = []
        for j, i in enumerate(where):
            w, r = worlds[i], results[i]
            tds = {t["id"]: t for t in w["tasks"]}
            if w["cfg"]["enforce"] and not w["cfg"]["release_tg"]:
                if any(d and d[0] + tds[t]["strats"][d[2]][0] > r["state"][str(t)]["deadline"] for t, d in r["plan"]):
                    bad.append(j)
    for b in bad[:3]:
        i = where[b]
        ctx.violation("c12r%d" % i, {"stream": "M-c12r", "world": worlds[i], "returned_placements": results[i]["plan"],
                                     "what": "a RETURNED placement ends after the task's deadline, or a hopeless task is placed (C12)"})


def run(ctx):
    # half of the worlds in the property's own mode (task-by-task, deadlines enforced), half mixed
    built, worlds, results = common.common_prelude(ctx, ctx.pid.split("_")[0] + "_ilp", 80, 1200, profile="taskwise")
    returned_monitor(ctx, worlds, results)
    batch_monitor(ctx)
    common.stream_csys(ctx, worlds, results)
    common.stream_plan(ctx, worlds, results)
    common.run_sat_monitor(ctx, worlds, results)
    n = common.run_monitor(ctx, worlds, results, "M-c12", "(fun i p => andb (c12_check i p) (c12_hopeless_check i p))",
                           "a feasible point of the implementation's ILP places a task whose start + chosen runtime exceeds "
                           "its deadline, or places a hopeless task (C12)")
    ctx.cov["input_distribution"]["monitored_points"] = n
