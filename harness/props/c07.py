"""C07 — conditional branches: exactly one branch runs, the others are cancelled.

Theorems: coq/Props/C07.v about Model/TaskGraph.v notify_completion.
Streams: S-conditional (real notify_task_completion / resolve_conditional / is_ready_to_run /
is_complete / is_cancelled vs the model, EVERY possible draw of every conditional), the monitor c07_check on
the implementation's own results, S-choices (contract of random.choices on CPython), S-submission (real
JobGraph._generate_task_graph with resolve_conditionals_at_submission, then the real random.choices).
"""
import json
import os

import core
from core import gz, glist
from props import c18 as tg
from props import c06_closure as clo

FILES = ["workload/tasks.py", "workload/graph.py", "workload/jobs.py"]
TRUSTED = tg.TRUSTED
CORPUS = os.path.join(core.ROOT, "corpus", "C07")


def run_like(rng):
    """a conditional graph in a state a run produces: ancestors of the completed conditional are
    COMPLETED, the rest is VIRTUAL / RELEASED / SCHEDULED (scheduled ahead), earlier cancellations closed"""
    adj, flags = tg.cond_dag(rng)
    tasks = tg.gen_tasks(rng, adj, flags, "fresh")
    nodes = tg.key_order(adj)
    par = tg.parents_of(adj)
    conds = [n for n in nodes if tasks[n][6] and dict((a, b) for a, b in tg.canon_adj(adj))[n]]
    t = rng.choice(conds)
    # ancestors complete
    todo, anc = [t], set()
    while todo:
        x = todo.pop()
        for p in par[x]:
            if p not in anc:
                anc.add(p)
                todo.append(p)
    for n in anc | {t}:
        tasks[n][0] = 7
        tasks[n][3] = 0
        tasks[n][8] = rng.choice([1, 4, 8])
    for n in nodes:
        if n not in anc and n != t and rng.random() < 0.25:
            tasks[n][0] = rng.choice([2, 3])
            if tasks[n][0] == 3:
                tasks[n][7] = rng.choice([5, 9, 15])
                tasks[n][3] = rng.choice([1, 4])
    if rng.random() < 0.2:
        others = [n for n in nodes if n not in anc and n != t]
        if others:
            clo.mark_cancelled(tasks, clo.py_doomed(adj, tasks, rng.choice(others)))
    ch = dict((a, b) for a, b in tg.canon_adj(adj))
    if rng.random() < 0.3 and len(ch[t]) >= 2:
        # a child of the conditional was cancelled (with everything it dooms) before the conditional completed:
        # its probability is 0, the remaining weights add up to less than 1
        clo.mark_cancelled(tasks, clo.py_doomed(adj, tasks, rng.choice(ch[t])))
    return adj, tasks, t


def has_direct_join_edge(adj, tasks, t):
    """signature of the known finding: the conditional has a terminal child"""
    ch = dict((a, b) for a, b in tg.canon_adj(adj))
    return any(tasks[c][5] for c in ch[t])


def py_branch(adj, tasks, u):
    if tasks[u][5]:
        return set()
    ch = dict((a, b) for a, b in tg.canon_adj(adj))
    s, todo = {u}, [u]
    while todo:
        x = todo.pop()
        for c in ch[x]:
            if c not in s and not tasks[c][5]:
                s.add(c)
                todo.append(c)
    return s


def py_c07_check(adj, tasks, t, draw, r):
    (code, val), after, _ = r
    rel, canc = val
    ch = dict((a, b) for a, b in tg.canon_adj(adj))
    par = tg.parents_of(adj)
    k = ch[t][draw]
    st = {v[0]: v[1] for v in after}
    if rel != [k] or tasks[k][4] <= 0:
        return False
    untaken = [u for u in ch[t] if u != k]
    for u in untaken:
        if any(st[d] != 8 for d in py_branch(adj, tasks, u)):
            return False
    for j in st:
        if tasks[j][5] and tasks[j][0] != 8 and any(p != t and st[p] != 8 for p in par[j]) and st[j] == 8:
            return False
    for n in st:
        if n in canc:
            if st[n] != 8 or tasks[n][0] == 8:
                return False
        elif st[n] != tasks[n][0]:
            return False
    return True


def job_dag(rng):
    """a job graph with 1-3 conditional/join pairs in sequence, each possibly with a nested pair inside a branch;
    branches are chains (or empty: a direct edge to the join); random declaration order"""
    nxt = [1]
    ch, flags = {}, {}

    def new():
        nxt[0] += 1
        ch[nxt[0] - 1] = []
        return nxt[0] - 1

    def chain(n):
        ns = [new() for _ in range(n)]
        for a, b in zip(ns, ns[1:]):
            ch[a].append(b)
        return ns

    def block(depth):
        c, t = new(), new()
        flags[c], flags[t] = "cond", "term"
        for _ in range(rng.choice([2, 2, 3])):
            r = rng.random()
            if r < 0.12:
                ch[c].append(t)
            elif r < 0.35 and depth == 0:
                c2, t2 = block(1)
                ch[c].append(c2)
                if rng.random() < 0.5:
                    z = chain(1)
                    ch[t2].append(z[0])
                    ch[z[0]].append(t)
                else:
                    ch[t2].append(t)
            else:
                ns = chain(rng.choice([1, 1, 2]))
                ch[c].append(ns[0])
                ch[ns[-1]].append(t)
        ch[c] = list(dict.fromkeys(ch[c]))
        return c, t
    prev = None
    if rng.random() < 0.6:
        prev = chain(1)[0]
    for _ in range(rng.choice([1, 2, 2, 3])):
        c, t = block(0)
        if prev is not None:
            ch[prev].append(c)
        prev = t
        if rng.random() < 0.4:
            m = chain(1)[0]
            ch[prev].append(m)
            prev = m
    keys = list(ch)
    rng.shuffle(keys)                      # the declaration order
    adj = [[k, ch[k]] for k in keys]
    jobs = {}
    for k in keys:
        jobs[k] = [flags.get(k) == "term", flags.get(k) == "cond", tg.DEN]
    for k in keys:
        if flags.get(k) == "cond":
            n = len(ch[k])
            cuts = sorted(rng.randint(0, tg.DEN) for _ in range(n - 1))
            for c, p in zip(ch[k], [b - a for a, b in zip([0] + cuts, cuts + [tg.DEN])]):
                jobs[c][2] = p
    return adj, jobs


def py_ref_resolve(canon, jobs):
    """reference of the resolution at submission (same as Model ref_resolve_loop): closure instead of breadth_first"""
    ch = dict((a, b) for a, b in canon)
    probs = {n: jobs[n][2] for n, _ in canon}
    counter = 0
    for n, _ in canon:
        if not jobs[n][1] or not ch[n]:
            continue
        ks = ch[n]
        idx = counter % len(ks) if counter >= len(ks) else counter
        counter = idx + 1
        for c in ks:
            if c == ks[idx]:
                probs[c] = tg.DEN
            else:
                probs[c] = 0
                if not jobs[c][0]:
                    seen, todo = {c}, [c]
                    while todo:
                        x = todo.pop()
                        for d in ch[x]:
                            if d not in seen and not jobs[d][0]:
                                seen.add(d)
                                todo.append(d)
                    for d in seen:
                        probs[d] = 0
    return probs


def submission_stream(ctx, quick):
    rng = ctx.rng
    cases, structured = [], []
    for i in range(150 if quick else 1200):
        if rng.random() < 0.75:
            adj, jobs = job_dag(rng)
            structured.append(True)
        else:                              # arbitrary DAG / flags: correspondence only
            adj = tg.rand_dag(rng, rng.choice([2, 3, 4, 5, 6]), rng.choice([0.3, 0.5]))
            nodes = tg.key_order(adj)
            jobs = {n: [rng.random() < 0.25, rng.random() < 0.3, rng.choice([0, 4, 8, 16])] for n in nodes}
            structured.append(False)
        cases.append((adj, jobs))
    # the two graphs of Props/C07.v (C07_resolved_at_submission_example / _nested_refuted), replayed on the real code
    cases.append(([[5, [6, 7]], [6, [8]], [7, [8]], [8, []], [1, [2, 3]], [2, [4]], [3, [4]], [4, [5]]],
                  {n: [n in (4, 8), n in (1, 5), 16] for n in range(1, 9)}))
    structured.append(True)
    cases.append(([[1, [6, 2]], [2, [3, 4]], [3, [5]], [4, [5]], [5, [7]], [6, [7]], [7, []]],
                  {n: [n in (5, 7), n in (1, 2), 16] for n in range(1, 8)}))
    structured.append(True)
    impl = core.run_impl("taskgraph.py", {"submission_probs": [{"adj": a, "jobs": {str(k): v for k, v in j.items()}, "den": tg.DEN}
                                                                for a, j in cases]})["submission_probs"]

    def g_adj(a):
        return glist(["(%s, %s)" % (gz(n), glist([gz(c) for c in cs])) for n, cs in a])

    def g_probs(ps):
        return glist(["(%s, %s)" % (gz(n), gz(p)) for n, p in ps])
    mcases, mon, monw = [], [], []
    for k, ((adj, jobs), (canon, r)) in enumerate(zip(cases, impl)):
        terms = glist([gz(n) for n in jobs if jobs[n][0]])
        conds = glist([gz(n) for n in jobs if jobs[n][1]])
        before = [[n, jobs[n][2]] for n, _ in canon]
        mcases.append(("(%s, %s, %s, %s, %s)" % (g_adj(adj), terms, conds, gz(tg.DEN), g_probs(before)), r,
                       {"declaration_order_mapping": adj, "jobs(terminal,conditional,prob/16)": jobs}))
        if structured[k] and r[0] == 0:
            mon.append("(%s, %s, %s, %s, %s, %s)" % (g_adj(canon), terms, conds, gz(tg.DEN), g_probs(before), g_probs(r[1])))
            monw.append(k)
    ctx.rules.append("S-submission: the real JobGraph._generate_task_graph with resolve_conditionals_at_submission on generated job "
                     "graphs: 1-3 conditional/join pairs in sequence, nested pairs, chains of unequal length, direct edges to the join, "
                     "random DECLARATION order (75%%), arbitrary DAGs and flags (25%%); the probability of every task afterwards is "
                     "compared with the model resolve_at_submission (breadth_first of Model/Graph.v) and, on the structured graphs, "
                     "checked by sub_check against a reference that uses a reachability closure instead of breadth_first")
    ctx.cov["distinct_nontrivial"] += len({repr(c) for c in cases})
    try:
        for idx, mv in ctx.model_stream("S-submission", tg.HEADER, "list (Z * list Z) * list Z * list Z * Z * list (Z * Z)",
                                        "sub_observe", mcases)[:3]:
            ctx.violation("submission%d" % idx, {"stream": "S-submission", "case": mcases[idx][2], "implementation": mcases[idx][1],
                                                 "model": mv, "what": "probabilities after resolution at submission differ from the model"})
    except core.ModelEvalError as e:
        ctx.broken.append({"kind": "correspondence", "name": "S-submission", "detail": str(e)[-600:]})
    what = ("resolution at submission: every conditional (in declaration order, round-robin choice) must leave exactly its chosen child "
            "at 1, the other children and the interior of their branches (up to but excluding the joins) at 0, and must not touch "
            "anything from the join on")

    def report(k, extra=""):
        adj, jobs = cases[k]
        ctx.violation("subcheck%d" % k, {"stream": "S-submission monitor", "declaration_order_mapping": adj,
                                         "jobs(terminal,conditional,prob/16)": jobs, "job_graph_key_order": impl[k][0],
                                         "probabilities_after": impl[k][1], "expected(reference)": sorted(py_ref_resolve(impl[k][0], jobs).items()),
                                         "what": what + extra})
    try:
        for b in ctx.monitor_stream("S-submission", tg.HEADER,
                                    "list (Z * list Z) * list Z * list Z * Z * list (Z * Z) * list (Z * Z)", "sub_check", mon)[:3]:
            report(monw[b])
    except core.ModelEvalError as e:
        ctx.broken.append({"kind": "monitor", "name": "sub_check", "detail": str(e)[-600:]})
        for k in monw:
            want = py_ref_resolve(impl[k][0], cases[k][1])
            if any(want[n] != p for n, p in impl[k][1][1]):
                report(k, " (Python fallback of the monitor)")
                break
    ctx.cov["input_distribution"]["submission_cases"] = len(cases)
    ctx.cov["input_distribution"]["submission_monitored"] = len(mon)


def run(ctx):
    ctx.fingerprint(FILES)
    ctx.translate(["Task", "TaskGraph"])
    ctx.build("C07", deps=["Model/TaskGraph.v"])
    quick = ctx.tier == "quick"
    rng = ctx.rng
    n_graphs = 140 if quick else 1000
    triples = []
    mon = []           # indices of the cases the monitor applies to
    for _ in range(n_graphs):
        adj, tasks, t = run_like(rng)
        ch = dict((a, b) for a, b in tg.canon_adj(adj))
        for draw in range(len(ch[t])):          # EVERY possible draw
            tk = json.loads(json.dumps(tasks))
            tk = {int(k): v for k, v in tk.items()}
            triples.append((adj, tk, ["notify", t, 5, draw]))
            probs = [tasks[c][4] for c in ch[t]]
            if sum(probs) <= tg.DEN and probs[draw] > 0 and clo.py_closed(adj, tasks):
                mon.append(len(triples) - 1)
    n_rand = 300 if quick else 2500
    triples += [tg.rand_case(rng, ["notify", "notify", "resolve", "ready", "flags"]) for _ in range(n_rand)]
    ctx.rules.append("S-conditional: notify_task_completion on structured conditional/join graphs (nested conditionals, branches "
                     "of unequal length, empty branches = direct edge to the join, extra parents) in run-like states (ancestors "
                     "COMPLETED, some tasks released or scheduled ahead, earlier cancellations incl. a child of the conditional "
                     "cancelled before it completed: weights adding up to less than 1) with EVERY possible draw, plus "
                     "random (DAG x state x operation) cases incl. resolve_conditional under the 5 policies, is_ready_to_run, "
                     "is_complete/is_cancelled; distinct = distinct (mapping, tasks, operation); non-trivial = >= 3 tasks and an edge")
    ctx.cov["distinct_nontrivial"] += tg.count_nontrivial(triples)
    res = tg.run_correspondence(ctx, "S-conditional", triples,
                                "notify_task_completion / resolve_conditional and the model disagree (released, cancelled, states "
                                "and probabilities afterwards)")
    ctx.sample({"stream": "S-conditional", "mapping": triples[0][0], "op": triples[0][2], "impl": res[0]})

    # ---- monitor on the implementation's results
    cases, where = [], []
    for i in mon:
        adj, tasks, op = triples[i]
        (code, val), after, consumed = res[i]
        if code != 0 or not consumed:
            continue
        cases.append("(%s, %s, %s, %s, %s, %s)" % (tg.g_graph(adj, tasks), gz(op[1]), gz(op[3]),
                                                    glist([gz(x) for x in val[0]]), glist([gz(x) for x in val[1]]),
                                                    clo.g_after(after)))
        where.append(i)
    direct = sum(1 for i in where if has_direct_join_edge(triples[i][0], triples[i][1], triples[i][2][1]))
    ctx.cov["input_distribution"] = {"notify_cases": sum(1 for x in triples if x[2][0] == "notify"),
                                     "monitored_draws": len(cases), "monitored_with_direct_edge_to_join": direct,
                                     "cases_cancelling_>=2": sum(1 for r, x in zip(res, triples) if x[2][0] == "notify"
                                                                 and r[0][0] == 0 and len(r[0][1][1]) >= 2)}

    def report(idx, what):
        adj, tasks, op = triples[idx]
        ctx.violation("c07_%d" % idx, {"stream": "S-conditional monitor", "mapping": adj,
                                       "tasks(state,release,deadline,raw_remaining,prob/16,terminal,conditional,"
                                       "expected_start,completion,runtimes)": tasks,
                                       "completed_conditional": op[1], "draw(index of the child returned by random.choices)": op[3],
                                       "implementation([released,cancelled],states_after)": res[idx], "what": what})
    what = ("after the completion of a conditional task: not exactly the drawn child released / a task of an untaken branch "
            "not cancelled / a join with a live parent cancelled / another task changed")
    try:
        bad = ctx.monitor_stream("S-conditional", tg.HEADER, "tgraph * Z * Z * list Z * list Z * list (Z * Z)",
                                 "(fun x => orb (negb (cancel_closedb (fst (fst (fst (fst (fst x))))))) (c07_check x))", cases)
        for b in bad[:3]:
            report(where[b], what)
    except core.ModelEvalError as e:
        ctx.broken.append({"kind": "monitor", "name": "c07_check", "detail": str(e)[-600:]})
        for i in where:
            adj, tasks, op = triples[i]
            if not py_c07_check(adj, tasks, op[1], op[3], res[i]):
                report(i, what + " (Python fallback of the monitor)")
                break

    # ---- contract of random.choices + resolution at submission, on the real code
    wvs = []
    for _ in range(40 if quick else 400):
        k = rng.choice([2, 3, 4])
        w = [rng.choice([0, 0, 0.25, 0.5, 1.0]) for _ in range(k)]
        if sum(w) > 0:
            wvs.append(w)
    subs = []
    for i in range(30 if quick else 150):
        adj, flags = tg.cond_dag(rng)
        nodes = tg.key_order(adj)
        tasks = tg.gen_tasks(rng, adj, flags, "fresh")
        subs.append({"jobs": {str(n): [tasks[n][5], tasks[n][6], tasks[n][4]] for n in nodes}, "den": tg.DEN,
                     "adj": tg.canon_adj(adj), "seed": i})
    extra = core.run_impl("taskgraph.py", {"choices_contract": wvs, "submission": subs})
    for w, idxs in zip(wvs, extra["choices_contract"]):
        if any(w[i] == 0 for i in idxs):
            ctx.violation("choices", {"stream": "S-choices", "weights": w, "indices_returned": idxs,
                                      "what": "random.choices returned an element of weight 0 (oracle contract of C07_one)"})
            break
    nsub = 0
    for s, r in zip(subs, extra["submission"]):
        for (c, kids, probs, rel, canc) in r:
            nsub += 1
            if rel is None:
                continue       # probabilities not summing to one etc.: the code refuses loudly
            ones = [k for k, p in zip(kids, probs) if p == tg.DEN]
            if len(ones) != 1 or rel != ones or any(p not in (0, tg.DEN) for p in probs):
                ctx.violation("submission", {"stream": "S-submission", "job_graph": s, "conditional": c, "children": kids,
                                             "probabilities_after_submission(/16)": probs, "released": rel,
                                             "what": "with conditionals resolved at submission the released child is not the "
                                                     "one child of probability 1"})
                break
    ctx.cov["streams"]["S-choices"] = {"cases": len(wvs) * 20, "disagreements": 0}
    ctx.cov["streams"]["S-submission-notify"] = {"cases": nsub, "disagreements": 0}
    ctx.cov["evaluations"] += len(wvs) * 20 + nsub
    ctx.rules.append("S-submission: JobGraph._generate_task_graph(resolve_conditionals_at_submission) on structured conditional job "
                     "graphs, then the real notify_task_completion with the real random.choices; S-choices: random.choices on weight "
                     "vectors with zeros, 20 samples each")

    submission_stream(ctx, quick)

    # ---- regression of the repaired finding FTG1 (direct edge from the conditional to its join): the join must
    # survive when another branch is drawn
    wpath = os.path.join(CORPUS, "join_direct_edge.json")
    if os.path.exists(wpath):
        w = json.load(open(wpath))
        tasks = {int(k): v for k, v in w["tasks"].items()}
        r = core.run_impl("taskgraph.py", {"cases": [{"graphs": [tg.spec_of(w["adj"], tasks)], "op": w["op"]}]})["results"][0]
        st = {v[0]: v[1] for v in r[1]}
        if r[0][0] == 0 and st[w["join"]] == 8:
            ctx.violation("FTG1_regression", {"stream": "regression FTG1", "witness": w, "implementation": r,
                                              "what": "the conditional has a direct edge to its join, another branch was drawn, and "
                                                      "notify_task_completion cancelled the join although the taken branch leads to it"})
