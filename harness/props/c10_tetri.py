"""C10 (TetriSched part) — every satisfying assignment of the space-time MIP of the TetriSched
planners reads back as a complete, feasible decision.  This module also hosts the machinery
shared by the other TetriSched parts (c11_tetri, c12_tetri, c14_tetri): world generator,
rendering of instances as Gallina literals, and the streams

  S-csys      gen_tetri(instance) == live solver model (rows compared one by one inside Coq)
  S-readback  readback(solver values) == Placements returned by schedule()
  M-sat       the solver's values satisfy the MODEL's system (sat (gen_tetri I) values)
  M-<part>    decidable PlanSpec monitors (independent of the formulation) on the returned Placements
"""
import json
import os

import core
from core import gz, glist, gbool, gnat

FILES = ["schedulers/tetrisched_gurobi_scheduler.py", "schedulers/tetrisched_cplex_scheduler.py",
         "workers/workers.py", "workload/resources.py", "workload/strategy.py", "workload/tasks.py"]
TRUSTED = [
    "Gurobi / CPLEX return assignments that satisfy the model they were given (checked per run by M-sat on the "
    "values they return, not proved); solver optimality within the MIP gap is trusted (C14 only)",
    "the instance handed to gen_tetri is read from the arguments of the scheduler's own _add_variables "
    "(attribute reads in harness/impl/tetri.py); get_schedulable_tasks (which tasks are offered) belongs to C18",
    "modelled subset: Resource(name, _id='any') types, batch_size 1, batching off, goal max_goodput, integer "
    "microsecond times; rewards np.interp(...,(2,1)) are modelled as exact rationals over a common denominator "
    "and compared with the live float coefficients after rational reconstruction (limit_denominator)",
    "translator fragment Tetri (occupancy window, deadline-cell test, CPLEX admission test) regenerated from "
    "source; bridge lemmas in Proofs/TetriP.v",
]
HEADER = "From Verif Require Import Model.PlanSpec Model.TetriModel."
RES = ["CPU", "GPU"]


# --------------------------------------------------------------------------
# Gallina rendering
# --------------------------------------------------------------------------
def g_rvec(v):
    return glist(["(%s, %s)" % (gz(r), gz(q)) for r, q in v])


def g_strat(s):
    return "(mkStrat %s %s)" % (gz(s[0]), g_rvec(s[1]))


def g_state(st):
    if st[0] == "running":
        return "(SRunning %s %s %s)" % (gz(st[1]), g_strat(st[2]), gz(st[3]))
    return {"scheduled": "SScheduled", "free": "SFree"}[st[0]]


def g_task(i, t):
    return "(mkTT %s %s %s %s %s %s %s %s)" % (
        gz(i), g_state(t["state"]), gz(t["release"]), gz(t["deadline"]), glist([g_strat(s) for s in t["strats"]]),
        glist([gz(p) for p in t["parents"]]), gz(t["nparents"]), gbool(t["sink"]))


def g_inst(inst):
    return "(mkTI %s %s %s %s %s %s %s %s %s)" % (
        "Gurobi" if inst["flavour"] == "gurobi" else "Cplex", gz(inst["now"]), gz(inst["plan_ahead"]), gz(inst["disc"]),
        gbool(inst["enforce"]), gbool(inst["retract"]), gbool(inst["release_tg"]),
        glist([g_task(i, t) for i, t in enumerate(inst["tasks"])]),
        glist(["(mkTW %s %s)" % (gz(w["idx"]), g_rvec(w["total"])) for w in inst["workers"]]))


def g_keys(values):
    return glist(["(%s, %s)" % (glist([gz(x) for x in k]), gz(v)) for k, v in values])


def canon_dump(d):
    """The dump as the python value expected by TetriModel.csys_diff (v_vdecl / v_constr / v_lin encodings)."""
    vs = [[k, ty, lb, [ub[0]] if ub else []] for k, ty, lb, ub in d["vars"]]
    rows = []
    for r in d["rows"]:
        if r[0] == 0:
            rows.append([0, r[1], [[k, c] for k, c in r[2]], r[3], r[4]])
        elif r[0] == 1:
            rows.append([1, r[1], r[2], r[3], [[k, c] for k, c in r[4]], r[5], r[6]])
        else:
            rows.append([2, r[1], r[2], r[3]])
    return [vs, rows, [[k, c] for k, c in d["obj"]], d["den"]]


# --------------------------------------------------------------------------
# world generator
# --------------------------------------------------------------------------
def gen_world(rng, flavour, tiny=False, allow_running=True, force=None):
    """A small cluster + workload state + scheduler configuration (JSON for harness/impl/tetri.py)."""
    force = force or {}
    now = rng.choice([0, 1, 3] if tiny else [0, 0, 1, 3, 4, 7])          # also times that are not multiples of the discretisation
    disc = force.get("disc", rng.choice([1, 1, 2, 3, 5]))
    release_tg = flavour == "gurobi" and rng.random() < 0.5
    if "release_tg" in force:
        release_tg = force["release_tg"] and flavour == "gurobi"
    cfg = {"flavour": flavour, "enforce": force.get("enforce", rng.random() < 0.7),
           "retract": force.get("retract", rng.random() < 0.5), "disc": disc, "release_tg": release_tg,
           "plan_ahead": rng.choice([-1, -1, -1, rng.randint(2, 7 if tiny else 10)])}
    nw = rng.choice([1, 1, 2] if tiny else [1, 2, 2, 3])
    workers = []
    for i in range(nw):
        res = [["CPU", rng.choice([1, 1, 2, 3])]]
        r = rng.random()
        if r < 0.35:
            res.append(["GPU", rng.choice([1, 2])])
        elif r < 0.45:
            res.append(["GPU", 0])
        if rng.random() < 0.15:
            res.reverse()
        if rng.random() < 0.3:
            # the capacity of one resource NAME split over several entries with distinct ids (GPU:u0 = 1, GPU:u1 = 1, ...)
            split = []
            for e in res:
                if e[1] >= 2 and rng.random() < 0.8:
                    a = rng.randint(1, e[1] - 1)
                    split += [[e[0], a, "u0"], [e[0], e[1] - a, "u1"]]
                elif e[1] == 1 and rng.random() < 0.5:
                    split += [[e[0], 1, "u0"], [e[0], 1, "u1"]]
                else:
                    split.append(e)
            res = split
        workers.append({"name": "W%d" % (i + 1), "res": res})
    if force.get("sched_fast_parent"):
        workers[0]["res"] = [["CPU", rng.choice([2, 3])]]       # room for a parent and its child side by side
    pools = [workers] if (nw == 1 or rng.random() < 0.5) else [workers[:1], workers[1:]]
    avail = {}
    for w in workers:
        avail[w["name"]] = {}
        for e in w["res"]:
            avail[w["name"]][e[0]] = avail[w["name"]].get(e[0], 0) + e[1]

    def strat():
        rt = rng.choice([1, 2, 2, 3, 4, 5, 7])
        r = rng.random()
        if r < 0.6:
            req = [["CPU", rng.choice([1, 1, 2])]]
        elif r < 0.8:
            req = [["GPU", rng.choice([1, 1, 2])]]
        elif r < 0.95:
            req = [["CPU", 1], ["GPU", 1]]
        else:
            req = [["CPU", 0]]
        return [rt, req]

    ntasks = rng.randint(1, 3 if tiny else 4)
    graphs = []
    left = ntasks
    gi = 0
    while left > 0:
        shape = rng.choice(["chain", "join", "fork", "chain", "single"] if force.get("dag") else
                           ["single", "single", "chain", "join", "fork"])
        n = {"single": 1, "chain": rng.choice([2, 3]), "join": 3, "fork": 3}[shape]
        n = min(n, left)
        names = ["t%d%d" % (gi, k) for k in range(n)]
        if shape == "single" or n == 1:
            edges = {names[0]: []}
        elif shape == "chain" or n == 2:
            edges = {names[k]: ([names[k + 1]] if k + 1 < n else []) for k in range(n)}
        elif shape == "join":
            edges = {names[0]: [names[2]], names[1]: [names[2]], names[2]: []}
        else:
            edges = {names[0]: [names[1], names[2]], names[1]: [], names[2]: []}
        parents = {x: [p for p in names if x in edges[p]] for x in names}
        tasks = []
        state_of = {}
        for x in names:     # names are in topological order
            ss = [strat()]
            if force.get("sched_fast_parent") and edges[x]:
                # a parent with a fast and a much slower strategy on the same resources (placed earlier with the fast one)
                fast = rng.choice([1, 2])
                ss = [[fast, [["CPU", 1]]], [fast + rng.choice([2, 3, 5]), [["CPU", 1]]]]
                if rng.random() < 0.5:
                    ss.reverse()
            elif force.get("sched_fast_parent"):
                ss = [[rng.choice([1, 2, 3]), [["CPU", 1]]]]
            elif rng.random() < 0.45:
                s2 = strat()
                if rng.random() < 0.15:       # a twin: same runtime, superset of the resources
                    s2 = [ss[0][0], ss[0][1] + [[r, 1] for r in RES if r not in [q[0] for q in ss[0][1]]]]
                ss.append(s2)
            slow = max(s[0] for s in ss)
            t = {"name": x, "strats": ss, "children": edges[x], "release": -1}
            pstates = [state_of[p] for p in parents[x]]
            if all(s == "completed" for s in pstates):
                choices = ["released"] * 5 + ["scheduled"] * 2 + (["running"] * 2 if allow_running else []) + ["completed"]
                if not parents[x] and rng.random() < 0.1:
                    choices = ["virtual"]
            else:
                choices = ["virtual"] * 4 + (["scheduled"] if release_tg else [])
            st = rng.choice(choices)
            if force.get("sched_fast_parent") and edges[x] and all(s_ == "completed" for s_ in pstates):
                st = "scheduled"
            if st == "completed" and not edges[x]:
                st = "released"
            t["deadline"] = max(0, now + rng.choice([-1, 1, 2, 3, 4, 5, 6] if tiny else [-2, 0, 1, 2, 3, 4, 5, 6, 8, 10, 12]))
            if rng.random() < 0.2:
                t["deadline"] = now + min(s_[0] for s_ in ss) + rng.choice([0, 0, 1])      # zero / small slack
            if force.get("sched_fast_parent"):
                t["deadline"] = now + rng.choice([8, 10, 12])
            if st in ("released", "scheduled", "running", "completed"):
                t["release"] = rng.randint(0, now)
            elif rng.random() < 0.3:
                t["release"] = now + rng.randint(0, 5)      # a VIRTUAL task with a known future release
            if st in ("scheduled", "running", "completed"):
                si = rng.randrange(len(ss))
                if force.get("sched_fast_parent") and st == "scheduled" and edges[x]:
                    si = min(range(len(ss)), key=lambda j: ss[j][0])
                wn = rng.choice(workers)["name"]
                rt = ss[si][0]
                if st == "scheduled":
                    start = now + rng.randint(0, 4)
                    t["place"] = {"worker": wn, "strat": si, "start": start, "sched_at": min(now, start)}
                elif st == "running":
                    fit = all(avail[wn].get(r, 0) >= q for r, q in ss[si][1])
                    if not fit:
                        st = "released"
                    else:
                        for r, q in ss[si][1]:
                            avail[wn][r] -= q
                        elapsed = rng.randint(0, min(now, rt - 1)) if rt > 1 else 0
                        elapsed = min(elapsed, now - t["release"])
                        t["place"] = {"worker": wn, "strat": si, "start": now - elapsed, "sched_at": now - elapsed,
                                      "remaining": rt - elapsed}
                else:
                    start = max(0, now - rt - rng.randint(0, 2))
                    if start + rt > now or start < t["release"]:
                        st = "released"
                    else:
                        t["place"] = {"worker": wn, "strat": si, "start": start, "sched_at": start}
            t["state"] = st
            state_of[x] = st
            tasks.append(t)
        graphs.append({"name": "g%d" % gi, "tasks": tasks})
        left -= n
        gi += 1
    return {"now": now, "cfg": cfg, "resources": RES, "pools": pools, "graphs": graphs}


def hopeless_run_world(rng, flavour):
    """2-5 independent RELEASED one-task graphs, with runs of >= 2 (often >= 3) ADJACENT hopeless tasks
    (deadline < now + fastest runtime) in the order in which the workload offers them, optionally next to healthy ones."""
    now = rng.choice([0, 2, 5])
    pattern = rng.choice(["HH", "HHH", "HHo", "oHH", "oHHH", "HHHo", "HoHH", "HHoHH", "oHHo"])
    graphs = []
    for k, c in enumerate(pattern):
        ss = [[rng.choice([2, 3, 4]), [["CPU", 1]]]]
        if rng.random() < 0.4:
            ss.append([ss[0][0] + rng.choice([1, 2]), [["CPU", 1]]])
            if rng.random() < 0.5:
                ss.reverse()
        fastest = min(x[0] for x in ss)
        dl = now + fastest - rng.choice([1, 1, 2]) if c == "H" else now + fastest + rng.choice([0, 2, 6])
        graphs.append({"name": "g%d" % k, "tasks": [{"name": "t%d0" % k, "strats": ss, "children": [], "release": rng.randint(0, now),
                                                      "deadline": max(0, dl), "state": "released"}]})
    return {"now": now, "cfg": {"flavour": flavour, "enforce": True, "retract": rng.random() < 0.5, "disc": rng.choice([1, 1, 2]),
                                "release_tg": False, "plan_ahead": -1},
            "resources": RES, "pools": [[{"name": "W1", "res": [["CPU", rng.choice([1, 2, 3])]]}]], "graphs": graphs}


def running_parent_world(rng):
    """Whole-graph mode (Gurobi): a parent started in an EARLIER invocation and partly executed (remaining < runtime) and a child
    whose deadline admits only start slots in (now + remaining, now + runtime]; a second CPU / worker leaves room for the child."""
    d = rng.choice([1, 1, 2])
    now = rng.choice([2, 3, 4, 6])
    rt = rng.choice([4, 5, 6, 8])
    elapsed = rng.randint(1, min(now, rt - 2))
    rem = rt - elapsed
    # child start slots (now + k*d) inside the window [now + rem + 1, now + rt]
    window = [s for s in range(now, now + rt + 1, d) if now + rem + 1 <= s <= now + rt]
    rc = rng.choice([1, 2, 3])
    if window:
        s0 = rng.choice(window)
        child_dl = s0 + rc + (d - 1 if rng.random() < 0.3 else 0)
        child_dl = min(child_dl, now + rt + rc)      # never admits a slot after now + runtime
    else:
        child_dl = now + rt + rc
    two_workers = rng.random() < 0.5
    pools = [[{"name": "W1", "res": [["CPU", 1]]}, {"name": "W2", "res": [["CPU", 1]]}]] if two_workers else \
        [[{"name": "W1", "res": [["CPU", 2]]}]]
    tasks = [{"name": "t00", "strats": [[rt, [["CPU", 1]]]], "children": ["t01"], "release": 0, "deadline": now + rem + rng.choice([0, 3]),
              "state": "running", "place": {"worker": "W1", "strat": 0, "start": now - elapsed, "sched_at": now - elapsed,
                                            "remaining": rem}},
             {"name": "t01", "strats": [[rc, [["CPU", 1]]]], "children": [], "release": -1, "deadline": child_dl, "state": "virtual"}]
    graphs = [{"name": "g0", "tasks": tasks}]
    if rng.random() < 0.4:
        graphs.append({"name": "g1", "tasks": [{"name": "t10", "strats": [[rng.choice([1, 2]), [["CPU", 1]]]], "children": [],
                                                 "release": 0, "deadline": now + 12, "state": "released"}]})
    return {"now": now, "cfg": {"flavour": "gurobi", "enforce": True, "retract": True, "disc": d, "release_tg": True,
                                "plan_ahead": -1},
            "resources": RES, "pools": pools, "graphs": graphs}


def world_key(w):
    return json.dumps(w, sort_keys=True)


def has_running(inst):
    return any(t["state"][0] == "running" for t in inst["tasks"])


def partial_parents(inst):
    """some task has a parent in the graph that has no optimizer variables (e.g. COMPLETED) while another has"""
    return any(t["parents"] and t["nparents"] != len(t["parents"]) for t in inst["tasks"])


# --------------------------------------------------------------------------
# running the implementation
# --------------------------------------------------------------------------
def run_worlds(worlds, chunk=40, probe=None):
    out = []
    from concurrent.futures import ThreadPoolExecutor
    parts = [worlds[i:i + chunk] for i in range(0, len(worlds), chunk)]
    with ThreadPoolExecutor(max_workers=8) as ex:
        for r in ex.map(lambda p: core.run_impl("tetri.py", {"cases": p, "probe": probe}, timeout=900)["results"], parts):
            out.extend(r)
    for w, r in zip(worlds, out):        # the remaining time of a RUNNING task is the world's, not what the scheduler sees
        if "inst" in r:
            desc = {t["name"] + "@" + g["name"]: t for g in w["graphs"] for t in g["tasks"]}
            for t in r["inst"]["tasks"]:
                if t["state"][0] == "running" and t["name"] in desc and "place" in desc[t["name"]]:
                    t["state"][3] = desc[t["name"]]["place"]["remaining"]
    return out


def expected_readback(inst, res):
    """Placements returned by schedule() as the value of TetriModel.v_readback (free tasks in map order)."""
    by = {}
    for p in res["placements"]:
        if p["type"] != "PLACE_TASK":
            continue
        by.setdefault(p["task"], []).append(p)
    out = []
    for i, t in enumerate(inst["tasks"]):
        if t["state"][0] == "running":
            continue
        ps = by.get(t["name"], [])
        if len(ps) != 1:
            return None, "task %s got %d PLACE_TASK answers" % (t["name"], len(ps))
        p = ps[0]
        out.append([i, [p["worker"], p["strat"], p["start"]] if p["placed"] else []])
    return out, None


def probe_spec(ctx, kinds, n=None, max_pairs=None):
    """Bounded adversarial probing of the live model (harness/impl/tetri.py:run_probes): a few re-optimisations per world,
    the choices inside a world are drawn from a seed taken from ctx.rng."""
    spec = {"kinds": list(kinds), "max": n if n is not None else (2 if ctx.tier == "quick" else 4),
            "seed": ctx.rng.randrange(1 << 30)}
    if max_pairs is not None:
        spec["max_pairs"] = max_pairs
    return spec


def probe_readback(inst, probe):
    """The Placements get_placements would build from a probe's values: the first cell (worker, time, strategy order) at 1."""
    by = {}
    for k, v in probe["values"]:
        if k[0] == 0 and v == 1:
            by.setdefault(k[1], []).append((k[2], k[3], k[4]))
    out = []
    for i, t in enumerate(inst["tasks"]):
        if t["state"][0] == "running":
            continue
        c = sorted(by.get(i, []))
        out.append([i, [c[0][0], c[0][2], c[0][1]] if c else []])
    return out


def all_plans_of(results, skip=None, probe_kinds=None, with_solver=True):
    """(world index, instance, plan as [[task, [w, s, t] or []]], origin) for the solver's own answer and every probe."""
    for i, r in enumerate(results):
        if "inst" not in r or r.get("placements") is None or "unsupported" in r:
            continue
        if skip and skip(r["inst"]):
            continue
        if with_solver and "values" in r:
            exp, err = expected_readback(r["inst"], r)
            if not err:
                yield i, r["inst"], exp, "schedule()"
        for pb in r.get("probes", []):
            if probe_kinds is None or pb["kind"] in probe_kinds:
                yield i, r["inst"], probe_readback(r["inst"], pb), "probe %s: %s (objective %s)" % (pb["kind"], pb["desc"], pb["obj"])


def scale_world(w, k):
    """the same world with every time quantity multiplied by k (a different time grain: disc, plan_ahead, now, runtimes,
    deadlines, releases, placements); flagged `units`, so that the adapter expresses the multiples of 1000 in ms — the
    strategies, deadlines and placements of one world then carry DIFFERENT units (raw magnitudes are not comparable)"""
    w = json.loads(json.dumps(w))
    w["now"] *= k
    w["cfg"]["disc"] *= k
    if w["cfg"]["plan_ahead"] != -1:
        w["cfg"]["plan_ahead"] *= k
    for g in w["graphs"]:
        for t in g["tasks"]:
            for s_ in t["strats"]:
                s_[0] *= k
            t["deadline"] *= k
            if t["release"] >= 0:
                t["release"] *= k
            for f in ("start", "sched_at", "remaining"):
                if "place" in t and f in t["place"]:
                    t["place"][f] *= k
    w["units"] = k
    return w


def generate(ctx, n_gurobi, n_cplex, tiny=False, allow_running=True, force=None):
    worlds = []
    seen = set()
    for flavour, n in (("gurobi", n_gurobi), ("cplex", n_cplex)):
        k = 0
        tries = 0
        while k < n and tries < 50 * n + 100:
            tries += 1
            w = gen_world(ctx.rng, flavour, tiny=tiny, allow_running=allow_running, force=force)
            if tries % 6 == 5:
                w = scale_world(w, [100, 250, 500, 500][(tries // 6) % 4])
            key = world_key(w)
            if key in seen:
                continue
            seen.add(key)
            worlds.append(w)
            k += 1
    return worlds


def stream_csys(ctx, worlds, results, tag="S-csys"):
    """gen_tetri(instance) against the live model; returns indices of the cases that took part."""
    live_checks(ctx, worlds, results)
    cases = []
    idx = []
    for i, (w, r) in enumerate(zip(worlds, results)):
        if "inst" not in r or "dump" not in r or "unsupported" in r:
            continue
        cases.append(("(%s, %s)" % (g_inst(r["inst"]), core.gval(canon_dump(r["dump"]))),
                      [[], [], [], [], 1, 1, 1], i))
        idx.append(i)
    if not cases:
        return idx
    try:
        mism = ctx.model_stream(tag, HEADER, "tinst * val", "(fun p => csys_diff (gen_tetri (fst p)) (snd p))", cases, shard=25)
        for ci, mv in mism[:3]:
            i = cases[ci][2]
            ctx.violation("csys%d" % i, {"stream": tag, "world": worlds[i], "instance": results[i]["inst"],
                                         "difference [model-only vars, live-only vars, model-only rows, live-only rows, obj eq, den eq, counts eq]": mv,
                                         "what": "the constraint system generated by the Coq model differs from the live solver model "
                                                 "built by the scheduler on this input"})
    except core.ModelEvalError as e:
        ctx.broken.append({"kind": "correspondence", "name": tag, "detail": str(e)[-800:]})
    return idx


def stream_readback(ctx, worlds, results, tag="S-readback"):
    cases = []
    for i, (w, r) in enumerate(zip(worlds, results)):
        if "inst" not in r or "values" not in r or "unsupported" in r or r.get("placements") is None:
            continue
        exp, err = expected_readback(r["inst"], r)
        if err:
            ctx.violation("answers%d" % i, {"stream": tag, "world": w, "placements": r["placements"], "what": err})
            continue
        cases.append(("(%s, %s)" % (g_inst(r["inst"]), g_keys(r["values"])), exp, i))
    if not cases:
        return
    try:
        mism = ctx.model_stream(tag, HEADER, "tinst * list (list Z * Z)",
                                "(fun p => v_readback (readback (fst p) (assign_of_keys (snd p))))", cases, shard=25)
        for ci, mv in mism[:3]:
            i = cases[ci][2]
            ctx.violation("readback%d" % i, {"stream": tag, "world": worlds[i], "placements": results[i]["placements"],
                                             "model_readback": mv, "solver_values": results[i]["values"],
                                             "what": "Placements returned by schedule() differ from the model's read-back of the solver's values"})
        bad = ctx.monitor_stream("M-sat", HEADER, "tinst * list (list Z * Z)",
                                 "(fun p => sat (gen_tetri (fst p)) (assign_of_keys (snd p)))", [c[0] for c in cases], shard=12)
        for b in bad[:3]:
            i = cases[b][2]
            ctx.violation("sat%d" % i, {"stream": "M-sat", "world": worlds[i], "solver_values": results[i]["values"],
                                        "what": "the values returned by the solver do not satisfy the model's constraint system"})
    except core.ModelEvalError as e:
        ctx.broken.append({"kind": "correspondence", "name": tag, "detail": str(e)[-800:]})


def monitor_plans(ctx, worlds, results, tag, fn, what, skip=None, probe_kinds=None):
    """Apply a PlanSpec monitor `fn : tinst * plan -> bool` to the Placements returned by the implementation and to the
    plans read from the adversarial probes of the live model (every assignment the live system admits)."""
    cases = []
    where = []
    for i, inst, exp, origin in all_plans_of(results, skip, probe_kinds):
        plan = glist(["(mkPl %s %s %s %s)" % (gz(t), gz(p[0]), gnat(p[1]) if p[1] >= 0 else gnat(99), gz(p[2]))
                      for t, p in exp if p])
        cases.append("(%s, %s)" % (g_inst(inst), plan))
        where.append((i, exp, origin))
    if not cases:
        return 0
    try:
        bad = ctx.monitor_stream(tag, HEADER, "tinst * plan", fn, cases, shard=25)
        for b in bad[:3]:
            i, exp, origin = where[b]
            ctx.violation("%s%d" % (tag.replace("-", ""), i),
                          {"stream": tag, "world": worlds[i], "instance": results[i]["inst"], "origin": origin,
                           "plan [task, [worker, strategy, start]]": exp,
                           "placements_returned_by_schedule": results[i]["placements"], "what": what})
    except core.ModelEvalError as e:
        ctx.broken.append({"kind": "monitor", "name": tag, "detail": str(e)[-800:]})
    ctx.cov.setdefault("input_distribution", {})["probe_plans"] = sum(len(r.get("probes", [])) for r in results)
    return len(cases)


def py_live_checks(inst, dump):
    """Independent of the Coq model and of the formulation's helpers: the live model was built from the time schedule() was
    invoked at, every time index of it is an allowed slot now + k*d, and the constant of every capacity row is the worker's
    TRUE total of that resource name minus what the running tasks hold."""
    now, d = inst["now"], inst["disc"]
    if dump.get("unknown_rows"):
        return "the live model has rows that the formulation as modelled does not have: %s" % dump["unknown_rows"][:4]
    if inst.get("impl_now", now) != now:
        return "schedule() was invoked at %d but built its model from time %d" % (now, inst["impl_now"])
    times = set()
    for k, _, _, _ in dump["vars"]:
        if k[0] in (0, 1, 2, 3):
            times.add(k[3] if k[0] == 0 else k[2])
    for r in dump["rows"]:
        if r[1][0] == 12:
            times.add(r[1][3])
    off = sorted(t for t in times if t < now or (t - now) % d != 0)
    if off:
        return "the live model has variables/rows at times %s that are not allowed slots %d + k*%d" % (off[:4], now, d)
    total = {w["idx"]: dict(w["total"]) for w in inst["workers"]}
    for r in dump["rows"]:
        if r[0] == 0 and r[1][0] == 12:
            _, rid, widx, t = r[1]
            const = 0
            for x in inst["tasks"]:
                st = x["state"]
                if st[0] == "running" and st[1] == widx and now <= t < now + st[2][0]:
                    const += dict(st[2][1]).get(rid, 0)
            want = total.get(widx, {}).get(rid, 0) - const
            if r[4] != want:
                return ("capacity row of worker %d, resource %s at time %d has constant %d but the worker's total of that resource "
                        "name is %d (running tasks hold %d)" % (widx, RES[rid], t, r[4], total.get(widx, {}).get(rid, 0), const))
    return None


def maximal_hyp_py(inst):
    """Where the maximality monitor applies: every parent of a task has variables, runtimes are positive.  RUNNING tasks are
    allowed: they are charged as the formulation charges them (whole runtime from now: known finding F11-iii, kept apart),
    while a running PARENT bounds its child by its expected finish now + remaining (+1)."""
    return (all(t["nparents"] == len(t["parents"]) for t in inst["tasks"])
            and all(s[0] > 0 for t in inst["tasks"] for s in t["strats"]))


def max_hyp_py(inst):
    """Hypotheses of theorem C14_tetri_maximal (no running task)."""
    return not has_running(inst) and maximal_hyp_py(inst)


def py_maximal(inst, exp):
    """Python twin of TetriModel.maximal_okb: a rewarded task left out although it can be added at an allowed slot
    now + k*d on some worker with some strategy (half-open occupation at slot times, child >= parent start + slowest + 1)."""
    if not maximal_hyp_py(inst):
        return None
    now, d = inst["now"], inst["disc"]
    h = inst["plan_ahead"] if inst["plan_ahead"] != -1 else max([t["deadline"] for t in inst["tasks"]] + [-1])
    slots = list(range(now, now + h + 1, d))
    placed = {i: p for i, p in exp if p}
    total = {w["idx"]: dict(w["total"]) for w in inst["workers"]}
    occ = [(p[0], p[2], p[2] + inst["tasks"][i]["strats"][p[1]][0], dict(inst["tasks"][i]["strats"][p[1]][1])) for i, p in placed.items()]
    for t in inst["tasks"]:       # running tasks, charged as the formulation charges them (F11-iii is reported separately)
        if t["state"][0] == "running":
            occ.append((t["state"][1], now, now + t["state"][2][0], dict(t["state"][2][1])))
    for i, t in enumerate(inst["tasks"]):
        if i in placed or t["state"][0] == "running" or not (t["sink"] or not inst["release_tg"] or inst["flavour"] == "cplex"):
            continue
        lo = max([now, t["release"]])
        ok_par = True
        if inst["flavour"] == "gurobi":
            for q in t["parents"]:
                pq = inst["tasks"][q]
                if pq["state"][0] == "running":      # expected finish of a running parent: now + remaining (world description)
                    lo = max(lo, now + pq["state"][3] + 1)
                    continue
                if q not in placed:
                    ok_par = False
                    break
                lo = max(lo, placed[q][2] + max(s[0] for s in pq["strats"]) + 1)
        if not ok_par:
            continue
        for w in inst["workers"]:
            for si, s in enumerate(t["strats"]):
                if any(q > total[w["idx"]].get(r, 0) for r, q in s[1]):
                    continue
                for st in slots:
                    if st < lo or (inst["enforce"] and st + s[0] > t["deadline"]):
                        continue
                    fits = True
                    for tau in slots:
                        if not (st <= tau < st + s[0]):
                            continue
                        for r, q in s[1]:
                            load = q + sum(req.get(r, 0) for (w_, a, b, req) in occ if w_ == w["idx"] and a <= tau < b)
                            if load > total[w["idx"]].get(r, 0):
                                fits = False
                    if fits:
                        return ("task %s is left out although it can be added on worker %d at slot %d with strategy %d "
                                "(runtime %d, deadline %d)" % (t["name"], w["idx"], st, si, s[0], t["deadline"]))
    return None


def monitor_hopeless(ctx, worlds, results):
    """Answers to offered tasks under enforce_deadlines, by the documented rule, from the WORLD description and the true
    invocation time: a hopeless task (deadline < now + fastest) is not placed; CPLEX answers EVERY hopeless released task with
    CANCEL_TASK and cancels nothing else; Gurobi never cancels."""
    cases, where, pybad = [], [], []
    for i, (w, r) in enumerate(zip(worlds, results)):
        if r.get("placements") is None or r.get("error") or not w["cfg"]["enforce"]:
            continue
        now = w["now"]
        cplex = w["cfg"]["flavour"] == "cplex"
        offered = {t["name"] + "@" + g["name"]: t for g in w["graphs"] for t in g["tasks"]}
        answers = {}
        for p in r["placements"]:
            answers.setdefault(p["task"], []).append(p)
        todo = [(name, p) for name, ps in answers.items() for p in ps]
        # a RELEASED task is offered: with no answer at all it counts as neither placed nor cancelled
        todo += [(name, {"placed": False, "type": "NO_ANSWER"}) for name, t in offered.items()
                 if t["state"] == "released" and name not in answers]
        for name, p in todo:
            t = offered[name]
            fastest = min(s[0] for s in t["strats"])
            cancelled = p["type"] == "CANCEL_TASK"
            cases.append("(%s, %s, %s, %s, %s, %s)" % (gz(t["deadline"]), gz(now), gz(fastest), gbool(bool(p["placed"])),
                                                       gbool(cancelled), gbool(cplex)))
            where.append((i, name, p["type"]))
            hp = t["deadline"] < now + fastest
            if (hp and p["placed"]) or (cancelled != hp if cplex else cancelled):
                pybad.append((i, name, p["type"]))
    what = ("a hopeless task (deadline < now + fastest runtime) was placed / not answered with CANCEL_TASK by the CPLEX admission control, "
            "or a task that is not hopeless was cancelled")
    if not cases:
        return
    reported = set()
    try:
        bad = ctx.monitor_stream("M-hopeless", HEADER, "Z * Z * Z * bool * bool * bool",
                                 "(fun q => match q with (d, n, f, placed, cancelled, cplex) => hopeless_answer_okb d n f placed cancelled cplex end)",
                                 cases, shard=200)
        for b in bad[:3]:
            i, name, ty = where[b]
            reported.add((i, name))
            ctx.violation("hopeless%d" % i, {"stream": "M-hopeless", "world": worlds[i], "task": name, "answer": ty,
                                             "placements": results[i]["placements"], "what": what})
    except core.ModelEvalError as e:
        ctx.broken.append({"kind": "monitor", "name": "M-hopeless", "detail": str(e)[-800:]})
    st = ctx.cov["streams"].setdefault("M-hopeless(python twin)", {"cases": 0, "failing": 0})
    st["cases"] += len(cases)
    st["failing"] += len(pybad)
    if not reported:
        for i, name, ty in pybad[:3]:
            ctx.violation("hopeless%d" % i, {"stream": "M-hopeless(python twin)", "world": worlds[i], "task": name, "answer": ty,
                                             "placements": results[i]["placements"], "what": what})


def live_checks(ctx, worlds, results):
    """py_live_checks on every captured model (always, whatever the state of the Coq side)."""
    n = 0
    for i, (w, r) in enumerate(zip(worlds, results)):
        if "inst" not in r:
            continue
        err = r.get("dump_error") or r.get("values_error") or r.get("probe_error")
        if "dump" not in r and not err:
            continue
        msg = ("the live model / solver values / probes could not be captured: %s" % err) if err else \
            py_live_checks(r["inst"], r["dump"])
        if msg:
            n += 1
            if n <= 3:
                ctx.violation("live%d" % i, {"stream": "live-model checks (python)", "world": w, "instance": r["inst"],
                                             "placements": r.get("placements"), "what": msg})
    st = ctx.cov["streams"].setdefault("live-model checks", {"cases": 0, "failing": 0})
    st["cases"] += sum(1 for r in results if "dump" in r)
    st["failing"] += n


def monitor_wf(ctx, worlds, results):
    """The hypotheses of the theorems (wf_inst, decided by wf_instb) hold of every instance the implementation built."""
    cases = []
    where = []
    for i, (w, r) in enumerate(zip(worlds, results)):
        if "inst" in r and "unsupported" not in r:
            cases.append(g_inst(r["inst"]))
            where.append(i)
    if not cases:
        return
    try:
        bad = ctx.monitor_stream("M-wf", HEADER, "tinst", "wf_instb", cases, shard=40)
        for b in bad[:3]:
            i = where[b]
            ctx.violation("wf%d" % i, {"stream": "M-wf", "world": worlds[i], "instance": results[i]["inst"],
                                       "what": "an instance built by the scheduler is outside the hypotheses of the theorems "
                                               "(wf_inst: distinct names, non-negative quantities, running tasks fit their workers, "
                                               "parents known)"})
    except core.ModelEvalError as e:
        ctx.broken.append({"kind": "monitor", "name": "M-wf", "detail": str(e)[-800:]})


def py_monitor_fallback(ctx, worlds, results, maximal=False, release_clause=False):
    """Pure-Python search for a failing input, used when the Coq side is broken: joint capacity at every
    integer instant, deadlines, precedence (chosen runtime), start >= now, one answer per task — on the solver's own
    answer and on every adversarial probe of the live model."""
    for i, r in enumerate(results):
        if "inst" in r and r.get("placements") is not None and "values" in r:
            exp, err = expected_readback(r["inst"], r)
            if err:
                ctx.violation("py%d" % i, {"stream": "python-fallback", "world": worlds[i], "instance": r["inst"],
                                           "placements": r["placements"], "what": err})
                return True
    st = ctx.cov["streams"].setdefault("python-fallback", {"cases": 0, "failing": 0})
    for i, inst, exp, origin in all_plans_of(results, probe_kinds=(["c14"] if maximal else None)):
        st["cases"] += 1
        msg = py_check_exp(inst, exp, release_clause=release_clause)
        if not msg and maximal:
            msg = py_maximal(inst, exp)
        if msg:
            st["failing"] += 1
            ctx.violation("py%d" % i, {"stream": "python-fallback", "world": worlds[i], "instance": inst, "origin": origin,
                                       "plan [task, [worker, strategy, start]]": exp,
                                       "placements_returned_by_schedule": results[i]["placements"], "what": msg})
            return True
    return False


def py_check(inst, r):
    exp, err = expected_readback(inst, r)
    if err:
        return err
    return py_check_exp(inst, exp)


def py_check_exp(inst, exp, release_clause=False):
    now = inst["now"]
    occ = []
    placed = {}
    for i, p in exp:
        if not p:
            continue
        t = inst["tasks"][i]
        if p[1] < 0 or p[1] >= len(t["strats"]):
            return "placement with a strategy that is not the task's"
        s = t["strats"][p[1]]
        if p[2] < now:
            return "start before now"
        if release_clause and t.get("release") is not None and t["release"] >= 0 and p[2] < t["release"]:
            return "task %s starts at %d, before its known release %d" % (t["name"], p[2], t["release"])
        if inst["enforce"] and p[2] + s[0] > t["deadline"]:
            return "task %s placed at %d with runtime %d misses its deadline %d" % (t["name"], p[2], s[0], t["deadline"])
        occ.append((p[0], p[2], p[2] + s[0], dict(s[1])))
        placed[i] = (p[2], s[0])
    for t in inst["tasks"]:
        if t["state"][0] == "running":
            occ.append((t["state"][1], now, now + t["state"][3], dict(t["state"][2][1])))
    if inst["flavour"] == "gurobi":
        for i, p in exp:
            if not p:
                continue
            for q in inst["tasks"][i]["parents"]:
                pt = inst["tasks"][q]
                if pt["state"][0] == "running":
                    if p[2] < now + pt["state"][3]:
                        return "child %s starts at %d before its running parent's expected finish %d" % (
                            inst["tasks"][i]["name"], p[2], now + pt["state"][3])
                elif q not in placed:
                    return "child %s placed although its co-decided parent %s is not" % (inst["tasks"][i]["name"], pt["name"])
                elif p[2] < placed[q][0] + placed[q][1]:
                    return "child %s starts at %d before its parent %s's planned end %d (start %d + chosen runtime %d)" % (
                        inst["tasks"][i]["name"], p[2], pt["name"], placed[q][0] + placed[q][1], placed[q][0], placed[q][1])
    caps = {w["idx"]: dict(w["total"]) for w in inst["workers"]}
    hi = max([e for _, _, e, _ in occ] + [now])
    for tau in range(now, hi + 1):
        for widx, cap in caps.items():
            for rid in range(len(RES)):
                d = sum(req.get(rid, 0) for (w_, s, e, req) in occ if w_ == widx and s <= tau < e)
                if d > cap.get(rid, 0):
                    return "worker %d oversubscribed for %s at instant %d: %d > %d" % (widx, RES[rid], tau, d, cap.get(rid, 0))
    return None


def coverage(ctx, worlds, results, nontrivial):
    seen = set()
    nt = 0
    dist = {"gurobi": 0, "cplex": 0, "running": 0, "scheduled": 0, "release_tg": 0, "enforce": 0, "model_built": 0,
            "placed_some": 0, "unplaced_some": 0, "cancelled_some": 0, "unsupported": 0, "scheduler_error": 0,
            "tasks_in_model": {}, "disc": {}}
    for w, r in zip(worlds, results):
        k = world_key(w)
        if k in seen:
            continue
        seen.add(k)
        dist[w["cfg"]["flavour"]] += 1
        dist["release_tg"] += w["cfg"]["release_tg"]
        dist["enforce"] += w["cfg"]["enforce"]
        dist["disc"][str(w["cfg"]["disc"])] = dist["disc"].get(str(w["cfg"]["disc"]), 0) + 1
        if "unsupported" in r:
            dist["unsupported"] += 1
        if r.get("error"):
            dist["scheduler_error"] += 1
        if "inst" in r:
            dist["model_built"] += 1
            inst = r["inst"]
            dist["running"] += has_running(inst)
            dist["scheduled"] += any(t["state"][0] == "scheduled" for t in inst["tasks"])
            n = str(len(inst["tasks"]))
            dist["tasks_in_model"][n] = dist["tasks_in_model"].get(n, 0) + 1
            pls = r.get("placements") or []
            dist["placed_some"] += any(p["placed"] for p in pls if p["type"] == "PLACE_TASK")
            dist["unplaced_some"] += any(not p["placed"] for p in pls if p["type"] == "PLACE_TASK")
            dist["cancelled_some"] += any(p["type"] == "CANCEL_TASK" for p in pls)
            if nontrivial(w, r):
                nt += 1
    ctx.cov["distinct_nontrivial"] += nt
    ctx.cov.setdefault("input_distribution", {}).update(dist)
    if dist["unsupported"]:     # generated worlds are inside the modelled subset: a world that cannot be captured is never skipped silently
        ctx.broken.append({"kind": "machinery", "name": "tetri adapter: %d generated worlds could not be captured" % dist["unsupported"],
                           "detail": "; ".join(sorted({r["unsupported"] for r in results if "unsupported" in r}))[:600]})
    return nt


def scheduler_errors(ctx, worlds, results):
    """schedule() must return normally (C10)."""
    for i, (w, r) in enumerate(zip(worlds, results)):
        if r.get("error"):
            ctx.violation("raise%d" % i, {"stream": "schedule()", "world": w, "error": r["error"],
                                          "traceback": r.get("traceback"),
                                          "what": "schedule() raised instead of returning a decision"})
            return True
    return False


# --------------------------------------------------------------------------
# C10 part
# --------------------------------------------------------------------------
PROPS = "C10_tetri"


def prepare(ctx, props_file):
    ctx.fingerprint(FILES)
    ctx.translate(["Tetri"])
    return ctx.build(props_file, deps=["Model/TetriModel.v", "Model/PlanSpec.v"])


def sizes(ctx):
    quick = ctx.tier == "quick"
    return (70, 40) if quick else (700, 350)


def run(ctx):
    built = prepare(ctx, PROPS)
    ng, nc = sizes(ctx)
    worlds = generate(ctx, ng, nc)
    results = run_worlds(worlds, probe=probe_spec(ctx, ["c10"]))
    ctx.rules.append("adversarial probes: the live model built by the real schedule() is re-optimised (a few times per world) to "
                     "maximise the load of one (worker, resource, instant); every assignment found goes through the same monitors")
    ctx.rules.append(
        "worlds: 1-3 workers (CPU 1-3, GPU 0-2, one or two pools), 1-4 tasks in singleton/chain/join/fork graphs with 1-2 "
        "strategies (incl. twins and zero requests), states virtual/released/scheduled/running/completed, now in {0,1,3,6}, "
        "deadlines now-2..now+12, discretisation 1-3, enforce_deadlines/retract_schedules/release_taskgraphs/plan_ahead varied, "
        "both solver back-ends; distinct = distinct world JSON; non-trivial = the solver model was built with >= 2 tasks "
        "or a running/scheduled task, and at least one task was placed")
    coverage(ctx, worlds, results,
             lambda w, r: (len(r["inst"]["tasks"]) >= 2 or has_running(r["inst"])) and
             any(p["placed"] for p in (r.get("placements") or [])))
    for w, r in list(zip(worlds, results))[:2]:
        ctx.sample({"world": w, "placements": r.get("placements"), "rows_in_live_model": len(r.get("dump", {}).get("rows", []))})
    scheduler_errors(ctx, worlds, results)
    stream_csys(ctx, worlds, results)
    stream_readback(ctx, worlds, results)
    monitor_wf(ctx, worlds, results)
    # the live state is untouched
    for i, (w, r) in enumerate(zip(worlds, results)):
        if r.get("state_unchanged") is False:
            ctx.violation("sidefx%d" % i, {"stream": "side effects", "world": w, "diff": r.get("state_diff"),
                                           "what": "schedule() changed task states or worker occupancy"})
            break
    n = monitor_plans(ctx, worlds, results, "M-contract",
                      "(fun p => contract_okb (fst p) (snd p))",
                      "the Placements returned violate the C10 contract: one answer per task, existing worker and strategy, "
                      "start >= now and >= release, or joint capacity (with running tasks at their remaining time) at some instant")
    ctx.cov["input_distribution"]["plans_monitored"] = n
    if ctx.broken:
        # (C10 names the release clause: a start before the task's known release is a C10 violation)
        py_monitor_fallback(ctx, worlds, results, release_clause=True)
