"""C12, whole-simulation part: every task that completes under an enforcing planner does so by its deadline (exact runtimes)."""
import json
import os

import core
import simcheck
import simcommon
import simmon

TRUSTED = simcheck.TRUSTED_SIM


def run(ctx):
    seen = []
    seen37 = []
    simcheck.run_sim_property(ctx, [], lambda r, w: simmon.mon_c12(r, w, seen, seen37),
                              "a task completed after its deadline in a run of a planner that enforces deadlines with exact runtimes", machine=False)
    ctx.cov.setdefault("input_distribution", {})["late_completions_matching_known_finding_F40"] = len(seen)
    ctx.cov["input_distribution"]["late_completions_matching_known_finding_F37c"] = len(seen37)
    for k in core.load_known():
        if k.get("status") == "known" and k.get("property") == "C12" and k.get("id") in ("F40", "F37c"):
            w = json.load(open(os.path.join(core.ROOT, k["witness"])))
            r = simcommon.run_worlds([w], jobs=1, chunk=1)[0]
            h40, h37 = [], []
            simmon.mon_c12(r, w, h40, h37)
            if (h40 if k["id"] == "F40" else h37):
                ctx.known(k["id"], k["what_fails"])
