"""C12, whole-simulation part: every task that completes under an enforcing planner does so by its deadline (exact runtimes)."""
import simcheck
import simmon

TRUSTED = simcheck.TRUSTED_SIM


def run(ctx):
    simcheck.run_sim_property(ctx, [], simmon.mon_c12,
                              "a task completed after its deadline in a run of a planner that enforces deadlines with exact runtimes", machine=False)
