"""C12, whole-simulation part: every task that completes under an enforcing planner does so by its deadline (exact runtimes)."""
import json
import os

import core
import simcheck
import simcommon
import simmon

TRUSTED = simcheck.TRUSTED_SIM


def run(ctx):
    seen = []
    simcheck.run_sim_property(ctx, [], lambda r, w: simmon.mon_c12(r, w, seen),
                              "a task completed after its deadline in a run of a planner that enforces deadlines with exact runtimes", machine=False)
    ctx.cov.setdefault("input_distribution", {})["late_completions_matching_known_finding_F40"] = len(seen)
    for k in core.load_known():
        if k.get("status") == "known" and k.get("property") == "C12" and k.get("id") == "F40":
            w = json.load(open(os.path.join(core.ROOT, k["witness"])))
            r = simcommon.run_worlds([w], jobs=1, chunk=1)[0]
            hits = []
            simmon.mon_c12(r, w, hits)
            if hits:
                ctx.known("F40", k["what_fails"])
