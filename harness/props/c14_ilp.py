"""C14 (ILP part) — the goodput objective: soundness on every solution, completeness refuted (F11-ii, F11-iii,
F22), real solver vs exhaustive search of the specification (evaluated in Coq) on tiny instances."""
import core
from core import gz
from props import c10_ilp as common
from props.c10_ilp import g_instance, g_plan, HEADER

TRUSTED = common.TRUSTED + [
    "tiny-instance sweep: Gurobi with the planner's own parameters (MIPGap 0.1: below 10 graphs it cannot hide a unit) is trusted to return an optimum; "
    "the exhaustive optimum is `best_goodput` evaluated by vm_compute over all plans with starts up to the largest deadline",
]


def gen_tiny(rng, thorough=False):
    """<= 3 (4) offered tasks, <= 2 workers, <= 2 strategies, horizon <= 12"""
    now = rng.choice([0, 0, 2])
    nworkers = rng.choice([1, 1, 2])
    flat = [{"res": common.split_entries(rng, [[0, rng.choice([1, 2, 2])]])} for _ in range(nworkers)]
    ntasks = rng.choice([1, 2, 3, 3, 3] + ([4] if thorough else []))
    chain = rng.random() < 0.25 and ntasks >= 2
    tasks, graphs = [], []
    for i in range(ntasks):
        ns = rng.choice([1, 1, 2])
        strats = [[rng.choice([1, 2, 3, 4, 5, 8]), [[0, rng.choice([1, 1, 2])]]] for _ in range(ns)]
        st = "R"
        td = {"id": i + 1, "graph": i, "state": st, "strats": strats, "deadline": now + rng.choice([0, 2, 4, 5, 6, 8, 10]),
              "release": 0}
        if rng.random() < 0.12:
            wi = rng.randrange(nworkers)
            rt, res = strats[0]
            if common.totals(flat[wi]["res"]).get(0, 0) >= res[0][1] and not any(t["state"] == "X" and t["prev"][0] == wi + 1 for t in tasks):
                started = max(0, now - rng.randrange(rt))
                td.update({"state": "X", "prev": [wi + 1, 0, started], "remaining": max(1, rt - (now - started)),
                           "deadline": now + 20})
        tasks.append(td)
    if chain:
        # the first two tasks form one graph offered as a whole (release_taskgraphs)
        tasks[1]["graph"] = tasks[0]["graph"]
        tasks[1]["state"] = "V"
        tasks[1]["release"] = -1
        tasks[1].pop("prev", None)
        tasks[1].pop("remaining", None)
        if tasks[0]["state"] == "X":
            tasks[0]["state"] = "R"
            tasks[0].pop("prev", None)
            tasks[0].pop("remaining", None)
            tasks[0]["deadline"] = now + rng.choice([4, 6, 10])
        tasks[1]["deadline"] = max(tasks[1]["deadline"], tasks[0]["deadline"])
    gids = []
    for t in tasks:
        if t["graph"] not in gids:
            gids.append(t["graph"])
    for g in gids:
        nodes = [t["id"] for t in tasks if t["graph"] == g]
        graphs.append({"id": g, "nodes": nodes, "edges": [[nodes[0], nodes[1]]] if len(nodes) == 2 else []})
    horizon = max(t["deadline"] for t in tasks)
    return {"now": now, "pools": [flat], "graphs": graphs, "tasks": tasks, "horizon": max(horizon, now + 1),
            "cfg": {"enforce": True, "retract": False, "release_tg": chain, "goal": "max_goodput", "lookahead": 0,
                    "allowed0": []}}


# ---- input signatures of the known findings (predicates over INPUTS, see the refuted lemmas)
def sig_running(w):
    """F11-iii: a RUNNING task is among the decided tasks"""
    return any(t["state"] == "X" for t in w["tasks"])


def fits(wd, strat):
    tot = {}
    for r, q in wd["res"]:
        tot[r] = tot.get(r, 0) + q
    return all(tot.get(r, 0) >= q for r, q in strat[1])


def sig_three_way(w):
    """F11-ii: at least three decided tasks, and some worker on which two of them fit separately but (with their cheapest
    demands) not together — plus the demand of the third if it fits that worker too: the third task's capacity row for
    that worker charges the two together as soon as both overlap it in time, wherever the third task runs"""
    flat = [wd for pool in w["pools"] for wd in pool]
    if len(w["tasks"]) < 3:
        return False
    for wd in flat:
        cap = sum(q for r, q in wd["res"] if r == 0)
        dem = sorted(min(s[1][0][1] for s in t["strats"] if fits(wd, s)) for t in w["tasks"]
                     if any(fits(wd, s) for s in t["strats"]))
        if len(dem) >= 2 and dem[0] + dem[1] > cap:
            return True
        if len(dem) >= 3 and sum(dem[:3]) > cap:
            return True
    return False


def sig_dead(w):
    """F22: with deadlines enforced, some decided task cannot even be given a start value: deadline < max(now + 1,
    release) — or, through the precedence row that also binds unplaced tasks, deadline < the earliest start of a
    co-decided parent.  (The weaker situation `deadline(child) < earliest end of the parent + 1` — formerly ILP-iv',
    proposed as F22b — only forbids placing the parent of a child that cannot be placed anyway; the graph's reward
    needs that child, so no goodput is lost and it is not a finding: it is NOT part of the signature.)"""
    lb = {}
    tds = {t["id"]: t for t in w["tasks"]}
    for t in w["tasks"]:
        if t["state"] == "X":
            continue
        lb[t["id"]] = max(w["now"] + 1, t["release"])
    for g in w["graphs"]:
        for p, c in g["edges"]:
            if p in lb and c in lb and tds[c]["deadline"] < lb[p]:
                return True
    return any(tds[i]["deadline"] < lb[i] for i in lb)


def sig_undecided_parent(w, order):
    """F11-iv: a decided task has a co-decided parent and a parent that is not decided (e.g. COMPLETED)"""
    dec = set(order)
    for g in w["graphs"]:
        for c in g["nodes"]:
            ps = [p for p, c2 in g["edges"] if c2 == c]
            if c in dec and any(p in dec for p in ps) and any(p not in dec for p in ps):
                return True
    return False


def replay_known(ctx):
    specs = [("F11-ii", "per-task capacity row charges two tasks that never coexist together: ILP optimum below the feasible goodput "
                        "(ilp_scheduler.py:1270-1363)"),
             ("F11-iii", "running task charged its full runtime from now: a task that fits after it is left unplaced "
                         "(ilp_scheduler.py:172-194,1397-1403)"),
             ("F11-iv", "a task with a COMPLETED parent and a co-decided parent can never be placed: len(parent_tasks) counts parents "
                        "that have no variables (ilp_scheduler.py:1142-1157)"),
             ("F22", "one task with deadline < now + 1 makes the model infeasible: nothing is placed in that invocation "
                        "(ilp_scheduler.py:200-207,318-340,760-774)")]
    import json
    import os
    d = os.path.join(core.ROOT, "corpus", "C14_ilp")
    for fid, what in specs:
        still = False
        for f in sorted(os.listdir(d)):
            if f.startswith(fid + "_"):
                c = json.load(open(os.path.join(d, f)))
                r = common.run_worlds([c["world"]], probe=False)[0]
                got = int(round(r["objval"])) if r.get("status") == 2 else sum(1 for t, dsc in r.get("plan", []) if dsc)
                if "error" not in r and got < c["expected_goodput"]:
                    still = True
        if still:
            ctx.known(fid, what)


def run(ctx):
    built, worlds, results = common.common_prelude(ctx, ctx.pid.split("_")[0] + "_ilp", 40, 600)
    common.stream_csys(ctx, worlds, results)
    common.stream_plan(ctx, worlds, results)
    common.run_sat_monitor(ctx, worlds, results)
    replay_known(ctx)

    # ---- S-obj: the solver's objective value is the goodput of the Placements it returned
    cases, where = [], []
    for i, (w, r) in enumerate(zip(worlds, results)):
        if r.get("status") == 2 and w["cfg"]["goal"] == "max_goodput" and "plan" in r:
            cases.append(("(%s, %s)" % (g_instance(w, r), g_plan(r["plan"])), int(round(r["objval"])), i))
            where.append(i)
    try:
        mism = ctx.model_stream("S-obj", HEADER, "instance * plan", "(fun p => I (goodput (fst p) (snd p)))", cases, shard=100)
        for idx, mv in mism[:2]:
            i = where[idx]
            ctx.violation("obj%d" % i, {"stream": "S-obj", "world": worlds[i], "plan": results[i]["plan"], "solver_objective": results[i]["objval"],
                                        "goodput_of_returned_plan": mv,
                                        "what": "the objective Gurobi reports differs from the number of task graphs the returned plan completes"})
    except core.ModelEvalError as e:
        ctx.broken.append({"kind": "correspondence", "name": "S-obj", "detail": str(e)[-800:]})

    # ---- S-opt: real solver vs exhaustive optimum of the specification on tiny instances
    n = 30 if ctx.tier == "quick" else 300
    tiny = [gen_tiny(ctx.rng, ctx.tier != "quick") for _ in range(n)]
    tres = common.run_worlds(tiny, probe=False)
    cases, where = [], []
    sig_counts = {"running": 0, "three_way": 0, "dead": 0, "free": 0}
    for i, (w, r) in enumerate(zip(tiny, tres)):
        if "dump" not in r or "error" in r:
            continue
        sol = int(round(r["objval"])) if r.get("status") == 2 else -1
        cases.append(("(%s, %s)" % (g_instance(w, r), gz(w["horizon"])), sol, i))
        where.append(i)
        sigs = [k for k, f in (("running", sig_running), ("three_way", sig_three_way), ("dead", sig_dead)) if f(w)]
        for k in sigs:
            sig_counts[k] += 1
        sig_counts["free"] += not sigs
    ctx.cov["input_distribution"]["tiny_signatures"] = sig_counts
    ctx.rules.append("S-opt: tiny instances (<= 3 offered tasks quick / 4 thorough, <= 2 workers (capacity sometimes split over two entries of the resource name), <= 2 strategies, deadlines <= now + 10, "
                     "sometimes a two-task chain offered as a whole or one running task), Gurobi (the planner's own MIPGap 0.1) vs `best_goodput` "
                     "(exhaustive search of feasible_clb plans in Coq); equality required unless the input matches the signature of "
                     "F11-ii / F11-iii / F11-iv / F22, where only solver <= exhaustive is required")
    try:
        mism = ctx.model_stream("S-opt", HEADER, "instance * Z", "(fun p => I (best_goodput (fst p) (snd p)))", cases, shard=3)
        below = 0
        for idx, mv in mism:
            i = where[idx]
            w = tiny[i]
            sol = cases[idx][1]
            known = sig_running(w) or sig_three_way(w) or sig_dead(w) or sig_undecided_parent(w, tres[i].get("order", []))
            if sol < mv and known:
                below += 1
                continue
            ctx.violation("opt%d" % i, {"stream": "S-opt", "world": w, "solver_goodput": sol, "exhaustive_goodput": mv,
                                        "plan": tres[i].get("plan"),
                                        "what": ("the ILP's optimum exceeds every feasible plan of the specification (soundness)" if sol > mv
                                                 else "the ILP leaves achievable goodput on the table on an input that matches no known signature")})
            if len(ctx.violations) > 3:
                break
        ctx.cov["input_distribution"]["tiny_below_optimum_with_known_signature"] = below
    except core.ModelEvalError as e:
        ctx.broken.append({"kind": "correspondence", "name": "S-opt", "detail": str(e)[-800:]})
