"""C10 — aggregated from its per-policy parts (see harness/parts.py)."""
import parts


def run(ctx):
    parts.run_parts(ctx, "C10", "greedy,cw,tetri,ilp,z3".split(","))
