"""C06 — task lifecycle is a legal state machine; cancellation is closed downstream.
Two parts: the simulator/lifecycle part (this file: Props/C06_sim.v + S-sim) and the cancellation-closure part
(Props/C06_closure.v + S-taskgraph, harness/props/c06_closure.py)."""
import importlib
import os

import simcheck
import simmon

TRUSTED = simcheck.TRUSTED_SIM + [
    "cancellation closure: TaskGraph.cancel is modelled in Model/TaskGraph.v (hand-written, tied by the S-taskgraph stream)"]


def replay_known(ctx):
    import json
    import core
    import simcommon
    for k in core.load_known():
        if k.get("status") == "known" and k.get("property") == "C06" and k.get("id") == "FTG3":
            w = json.load(open(os.path.join(core.ROOT, k["witness"])))
            r = simcommon.run_worlds([w], jobs=1, chunk=1)[0]
            hits = []
            simmon.mon_c06(r, hits)
            if hits:
                ctx.known("FTG3", k["what_fails"])


def run(ctx):
    seen = []
    simcheck.run_sim_property(ctx, ["C06_sim"], lambda r, w: simmon.mon_c06(r, seen),
                              "a task left the documented lifecycle, a cancelled task kept its placement or started, or a "
                              "graph was (not) reported finished against the state of its sinks")
    ctx.cov.setdefault("input_distribution", {})["starts_matching_known_finding_FTG3"] = len(seen)
    # ---- the TASK_CANCEL handler as a function of the machine-with-queue state (Model/SimHandlers.v)
    import core
    import simcommon
    ctx.build("C06_handlers", deps=["Model/Sim.v", "Model/SimQ.v", "Model/SimRows.v", "Model/SimHandlers.v"])
    ctx.rules.append("S-cancel-handlers: every TASK_CANCEL event handled in the S-sim runs: the pending TASK_PLACEMENT event the "
                     "handler removes (or none), computed by Model/SimHandlers.v from the machine-with-queue state, compared inside "
                     "Coq with the removal observed on the simulator's own EventQueue")
    try:
        worlds_, runs_ = simcommon.cached_runs(ctx)
        cm, cfed = simcommon.cancels_stream(ctx, worlds_, runs_)
        for (i, mv, exp) in cm[:3]:
            if not (isinstance(mv, list) and mv and mv[0] == 1):
                continue            # the machine rejected the log: the S-sim / S-simq ties report that
            ctx.violation("cancel_handler_world%d" % i, {
                "stream": "S-cancel-handlers", "world": worlds_[i], "model": mv, "implementation": exp,
                "what": "a TASK_CANCEL handler did not remove exactly the pending placement event of the cancelled task "
                        "(per handler: time of the removed TASK_PLACEMENT event or null)"})
    except core.ModelEvalError as e:
        ctx.broken.append({"kind": "correspondence", "name": "S-cancel-handlers (handler model does not evaluate)", "detail": str(e)[-500:]})
    replay_known(ctx)
    if os.path.exists(os.path.join(os.path.dirname(__file__), "c06_closure.py")):
        part = importlib.import_module("props.c06_closure")
        part.run(ctx)
