"""C06 — task lifecycle is a legal state machine; cancellation is closed downstream.
Two parts: the simulator/lifecycle part (this file: Props/C06_sim.v + S-sim) and the cancellation-closure part
(Props/C06_closure.v + S-taskgraph, harness/props/c06_closure.py)."""
import importlib
import os

import simcheck
import simmon

TRUSTED = simcheck.TRUSTED_SIM + [
    "cancellation closure: TaskGraph.cancel is modelled in Model/TaskGraph.v (hand-written, tied by the S-taskgraph stream)"]


def replay_known(ctx):
    import json
    import core
    import simcommon
    for k in core.load_known():
        if k.get("status") == "known" and k.get("property") == "C06" and k.get("id") == "FTG3":
            w = json.load(open(os.path.join(core.ROOT, k["witness"])))
            r = simcommon.run_worlds([w], jobs=1, chunk=1)[0]
            hits = []
            simmon.mon_c06(r, hits)
            if hits:
                ctx.known("FTG3", k["what_fails"])


def run(ctx):
    seen = []
    simcheck.run_sim_property(ctx, ["C06_sim"], lambda r, w: simmon.mon_c06(r, seen),
                              "a task left the documented lifecycle, a cancelled task kept its placement or started, or a "
                              "graph was (not) reported finished against the state of its sinks")
    ctx.cov.setdefault("input_distribution", {})["starts_matching_known_finding_FTG3"] = len(seen)
    # ---- the TASK_CANCEL handler as a function of the machine-with-queue state (Model/SimHandlers.v)
    import core
    import simcommon
    ctx.build("C06_handlers", deps=["Model/Sim.v", "Model/SimQ.v", "Model/SimRows.v", "Model/SimHandlers.v"])
    ctx.rules.append("S-cancel-handlers: every TASK_CANCEL event handled in the S-sim runs: the pending TASK_PLACEMENT event the "
                     "handler removes (or none), computed by Model/SimHandlers.v from the machine-with-queue state, compared inside "
                     "Coq with the removal observed on the simulator's own EventQueue")
    try:
        worlds_, runs_ = simcommon.cached_runs(ctx)
        cm, cfed = simcommon.cancels_stream(ctx, worlds_, runs_)
        for (i, mv, exp) in cm[:3]:
            if not (isinstance(mv, list) and mv and mv[0] == 1):
                continue            # the machine rejected the log: the S-sim / S-simq ties report that
            ctx.violation("cancel_handler_world%d" % i, {
                "stream": "S-cancel-handlers", "world": worlds_[i], "model": mv, "implementation": exp,
                "what": "a TASK_CANCEL handler did not remove exactly the pending placement event of the cancelled task "
                        "(per handler: time of the removed TASK_PLACEMENT event or null)"})
        ctx.rules.append("S-decisions: every decision of a policy as Simulator.__create_events_from_task_placement(_skip) processes it "
                         "(about 6000 per quick run): scheduled with a new event / scheduled and the pending event re-timed / plan "
                         "retracted (event removed, task unscheduled) / nothing / TaskGraph.cancel - the outcome computed by "
                         "Model/SimHandlers.v decision_outcome from the machine-with-queue state at that moment vs the observed one")
        dm, dfed = simcommon.decisions_stream(ctx, worlds_, runs_)
        names = {0: "outside", 1: "scheduled (new event)", 2: "scheduled (pending event re-timed)", 3: "plan retracted", 4: "nothing",
                 5: "TaskGraph.cancel"}
        for (i, j, mo, io) in dm[:3]:
            if j is None:
                continue        # the machine rejected the log: reported by the S-sim / S-simq ties
            ctx.violation("decision_world%d" % i, {
                "stream": "S-decisions", "world": worlds_[i], "decision_ordinal": j, "model": mo, "implementation": io,
                "what": "decision no. %d of the run: the simulator did `%s`, the decision table of "
                        "__create_events_from_task_placement applied to the state at that moment gives `%s`"
                        % (j, names.get(io[0], "?") if io else "?", names.get(mo[0], "?") if mo else "?")})
    except core.ModelEvalError as e:
        ctx.broken.append({"kind": "correspondence", "name": "S-cancel-handlers / S-decisions (handler model does not evaluate)", "detail": str(e)[-500:]})
    replay_known(ctx)
    if os.path.exists(os.path.join(os.path.dirname(__file__), "c06_closure.py")):
        part = importlib.import_module("props.c06_closure")
        part.run(ctx)
