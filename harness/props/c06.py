"""C06 — task lifecycle is a legal state machine; cancellation is closed downstream.
Two parts: the simulator/lifecycle part (this file: Props/C06_sim.v + S-sim) and the cancellation-closure part
(Props/C06_closure.v + S-taskgraph, harness/props/c06_closure.py)."""
import importlib
import os

import simcheck
import simmon

TRUSTED = simcheck.TRUSTED_SIM + [
    "cancellation closure: TaskGraph.cancel is modelled in Model/TaskGraph.v (hand-written, tied by the S-taskgraph stream)"]


def replay_known(ctx):
    import json
    import core
    import simcommon
    for k in core.load_known():
        if k.get("status") == "known" and k.get("property") == "C06" and k.get("id") == "FTG3":
            w = json.load(open(os.path.join(core.ROOT, k["witness"])))
            r = simcommon.run_worlds([w], jobs=1, chunk=1)[0]
            hits = []
            simmon.mon_c06(r, hits)
            if hits:
                ctx.known("FTG3", k["what_fails"])


def run(ctx):
    seen = []
    simcheck.run_sim_property(ctx, ["C06_sim"], lambda r, w: simmon.mon_c06(r, seen),
                              "a task left the documented lifecycle, a cancelled task kept its placement or started, or a "
                              "graph was (not) reported finished against the state of its sinks")
    ctx.cov.setdefault("input_distribution", {})["starts_matching_known_finding_FTG3"] = len(seen)
    replay_known(ctx)
    if os.path.exists(os.path.join(os.path.dirname(__file__), "c06_closure.py")):
        part = importlib.import_module("props.c06_closure")
        part.run(ctx)
