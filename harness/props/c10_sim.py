"""C10, whole-simulation part: the contract of every decision returned by the bundled policies during generated simulations
(live cluster and task states unchanged, one decision per task, offered tasks answered, existing pool, time >= now)."""
import simcheck
import simmon

TRUSTED = simcheck.TRUSTED_SIM


def run(ctx):
    simcheck.run_sim_property(ctx, [], simmon.mon_c10,
                              "a policy's schedule() changed the live cluster or a task, answered a task twice or not at all, "
                              "or returned a placement naming no pool / a time before now", machine=False)
