"""C10, whole-simulation part: the contract of every decision returned by the bundled policies during generated simulations
(live cluster and task states unchanged, one decision per task, offered tasks answered, existing pool, time >= now, and the
chosen strategy fits the named worker when that worker is empty)."""
import json
import os

import core
import simcheck
import simcommon
import simmon

TRUSTED = simcheck.TRUSTED_SIM


def run(ctx):
    seen = []
    simcheck.run_sim_property(ctx, [], lambda r, w: simmon.mon_c10(r, w, seen),
                              "a policy's schedule() changed the live cluster or a task, answered a task twice or not at all, "
                              "or returned a placement naming no pool / a time before now / a worker that can never hold the strategy",
                              machine=False)
    ctx.cov.setdefault("input_distribution", {})["decisions_matching_known_finding_F37"] = len(seen)
    for k in core.load_known():
        if k.get("status") == "known" and k.get("property") == "C10" and k.get("id") == "F37":
            w = json.load(open(os.path.join(core.ROOT, k["witness"])))
            r = simcommon.run_worlds([w], jobs=1, chunk=1)[0]
            hits = []
            simmon.mon_c10(r, w, hits)
            if hits:
                ctx.known("F37", k["what_fails"])
