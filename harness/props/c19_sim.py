"""C19, whole-simulation part: every described job graph (and replica) releases the declared number of invocations."""
import simcheck
import simmon

TRUSTED = simcheck.TRUSTED_SIM


def run(ctx):
    simcheck.run_sim_property(ctx, [], simmon.mon_c19,
                              "a job graph released a number of TaskGraphs other than the invocations its description declares",
                              machine=False)
