"""C08 — the CSV trace and end-of-run counters tell the truth about the run."""
import json
import os

import core
import simcheck
import simcommon

TRUSTED = simcheck.TRUSTED_SIM + [
    "row contents and the CSV reader are checked on the implementation only (monitors comparing every row with the call log / "
    "final task objects of the same run, and the project's CSVReader run on the captured rows); the theorems cover the "
    "finished/cancelled counters of the abstract machine, which the tie compares with the simulator's own counters"]


def rows_of(run):
    return [r.split(",") for r in run["rows"]]


def mon_c08(run, world):
    bad = []
    if run["status"] != "ended":
        return bad
    rows = rows_of(run)
    final = {f[0]: f for f in run["final"]}
    id2name = {}
    info = {}
    for e in run["log"]:
        if e[0] == "graph":
            for t in e[1]["tasks"]:
                info[t["name"]] = t
    # ---- row by row against the call log
    log = run["log"]
    releases = [e for e in log if e[0] == "task" and e[1] == "release" and e[5] != "ERR"]
    starts = {e[2]: e for e in log if e[0] == "task" and e[1] == "start" and e[5] != "ERR"}
    finishes = {e[2]: e for e in log if e[0] == "task" and e[1] == "finish" and e[5] != "ERR"}
    scheds = {}
    for e in log:
        if e[0] == "task" and e[1] == "schedule" and e[5] != "ERR":
            scheds[e[2]] = e
    rel_rows = [r for r in rows if len(r) > 1 and r[1] == "TASK_RELEASE"]
    if len(rel_rows) != len(releases):
        bad.append("%d TASK_RELEASE rows for %d releases" % (len(rel_rows), len(releases)))
    for r, e in zip(rel_rows, releases):
        name = "%s@%s" % (r[2], r[8])
        id2name[r[7]] = name
        f = final.get(name)
        if name != e[2]:
            bad.append("TASK_RELEASE row for %s where %s was released" % (name, e[2]))
            continue
        if int(r[0]) != e[3] or int(r[5]) != e[6][0]:
            bad.append("TASK_RELEASE row of %s reports time %s / release %s, the task was released at %s" % (name, r[0], r[5], e[3]))
        if f and int(r[6]) != f[5]:
            bad.append("TASK_RELEASE row of %s reports deadline %s, the task's deadline is %s" % (name, r[6], f[5]))
        slow = max(s[0] for s in info[name]["strategies"]) if name in info else None
        if slow is not None and int(r[9]) != slow:
            bad.append("TASK_RELEASE row of %s reports runtime %s, slowest strategy runtime is %s" % (name, r[9], slow))
    placed_rows = [r for r in rows if len(r) > 1 and r[1] == "TASK_PLACEMENT"]
    if len(placed_rows) != len(starts):
        bad.append("%d TASK_PLACEMENT rows for %d started tasks" % (len(placed_rows), len(starts)))
    for r in placed_rows:
        name = "%s@%s" % (r[2], r[3])
        s = starts.get(name)
        if s is None:
            bad.append("TASK_PLACEMENT row for %s which never started" % name)
            continue
        if int(r[0]) != s[3]:
            bad.append("TASK_PLACEMENT row of %s at %s, the task started at %s" % (name, r[0], s[3]))
        sc = scheds.get(name)
        if sc and sc[6][3] is not None and int(r[7]) != sc[6][3]:
            bad.append("TASK_PLACEMENT row of %s reports runtime %s, the chosen strategy has %s" % (name, r[7], sc[6][3]))
        place = [e for e in log if e[0] == "worker" and e[1] == "place" and e[3] == name and e[5] == "ok"]
        if place and place[-1][4][2] == 1:       # (members of a batch share the batch's allocation)
            want = {}
            for (n, _i, q) in place[-1][4][1]:
                want[n] = want.get(n, 0) + q
            got = {}
            for i in range(8, len(r) - 2, 3):
                got[r[i]] = got.get(r[i], 0) + int(r[i + 2])
            if got != want:
                bad.append("TASK_PLACEMENT row of %s lists resources %s, the strategy requested %s" % (name, got, want))
    fin_rows = [r for r in rows if len(r) > 1 and r[1] == "TASK_FINISHED"]
    if len(fin_rows) != len(finishes):
        bad.append("%d TASK_FINISHED rows for %d completions" % (len(fin_rows), len(finishes)))
    missed_rows = {id2name.get(r[5], r[5]) for r in rows if len(r) > 1 and r[1] == "MISSED_DEADLINE"}
    n_missed_truth = 0
    for r in fin_rows:
        name = "%s@%s" % (r[2], r[4])
        e = finishes.get(name)
        f = final.get(name)
        if e is None or f is None:
            bad.append("TASK_FINISHED row for %s which did not complete" % name)
            continue
        if int(r[5]) != e[6][0] or int(r[0]) != e[6][0]:
            bad.append("TASK_FINISHED row of %s reports %s/%s, completion was %s" % (name, r[0], r[5], e[6][0]))
        if int(r[6]) != f[5]:
            bad.append("TASK_FINISHED row of %s reports deadline %s, it is %s" % (name, r[6], f[5]))
        late = e[6][0] > f[5]
        n_missed_truth += late
        if late != (name in missed_rows):
            bad.append("task %s completed at %s with deadline %s but MISSED_DEADLINE row %s" %
                       (name, e[6][0], f[5], "present" if name in missed_rows else "absent"))
    canc_rows = [r for r in rows if len(r) > 1 and r[1] == "TASK_CANCEL"]
    canc_truth = [f[0] for f in run["final"] if f[1] == "CANCELLED"]
    if sorted("%s@%s" % (r[2], r[5]) for r in canc_rows) != sorted(canc_truth):
        bad.append("TASK_CANCEL rows %s, cancelled tasks %s" % (sorted("%s@%s" % (r[2], r[5]) for r in canc_rows)[:5], sorted(canc_truth)[:5]))
    # scheduler rows
    offers = []
    decs = []
    i = 0
    last_offers = []          # the LAST query of the frontier inside the same handler: the one the policy itself made
    in_ss = False
    for e in log:
        if e[0] == "handle" and e[2] == "SCHEDULER_START":
            offers.append(None)
            last_offers.append(None)
            in_ss = True
        elif e[0] == "handled":
            in_ss = False
        elif e[0] == "offer" and offers and offers[-1] is None:
            offers[-1] = e
        elif e[0] == "offer" and in_ss and last_offers:
            last_offers[-1] = e
        elif e[0] == "decisions":
            decs.append(e)
    ss_rows = [r for r in rows if len(r) > 1 and r[1] == "SCHEDULER_START"]
    sf_rows = [r for r in rows if len(r) > 1 and r[1] == "SCHEDULER_FINISHED"]
    for r, o in zip(ss_rows, offers):
        if o is not None and int(r[2]) != len(o[6]):
            bad.append("SCHEDULER_START row at %s reports %s schedulable tasks, %d were offered" % (r[0], r[2], len(o[6])))
    # (graphs with conditionals are not judged by this clause: with a lookahead the frontier contains a branch PREDICTED by
    #  a random draw per query, so two queries at the same instant legitimately differ)
    has_cond = any(t.get("conditional") for e in log if e[0] == "graph" for t in e[1]["tasks"])
    for r, o in zip(ss_rows, [] if has_cond else last_offers):
        # the row must report what the POLICY was offered (its own query of the frontier, same instant), not only what the
        # simulator's logging query returned
        if o is not None and int(r[2]) != len(o[6]):
            bad.append("SCHEDULER_START row at %s reports %s schedulable tasks, the policy was offered %d (its query: lookahead %s "
                       "preemption %s retract %s release_taskgraphs %s)" % (r[0], r[2], len(o[6]), o[2], o[3], o[4], o[5]))
    for r, d in zip(sf_rows, decs):
        placed = sum(1 for x in d[2] if x[0] == "PLACE_TASK" and x[3] is not None)
        unplaced = sum(1 for x in d[2] if x[0] == "PLACE_TASK" and x[3] is None)
        if int(r[3]) != placed or int(r[4]) != unplaced:
            bad.append("SCHEDULER_FINISHED row at %s reports %s placed / %s unplaced, the decisions had %d / %d" %
                       (r[0], r[3], r[4], placed, unplaced))
    # ---- graph rows
    ginfo = {}
    for e in log:
        if e[0] == "graph":
            ginfo[e[1]["graph"]] = e[1]
    gdl0 = {g[0]: g[3] for g in run["graphs"]}
    for r in rows:
        if len(r) > 6 and r[1] == "TASK_GRAPH_RELEASE":
            gi = ginfo.get(r[4])
            if gi is None:
                bad.append("TASK_GRAPH_RELEASE row for unknown graph %s" % r[4])
                continue
            if int(r[2]) != gi["release"] or int(r[3]) != gi["deadline"] or int(r[5]) != len(gi["tasks"]):
                bad.append("TASK_GRAPH_RELEASE row of %s reports release %s deadline %s tasks %s, the graph has %s %s %s"
                           % (r[4], r[2], r[3], r[5], gi["release"], gi["deadline"], len(gi["tasks"])))
        elif len(r) > 4 and r[1] == "TASK_GRAPH_FINISHED":
            dl = gdl0.get(r[2])
            if dl is not None:
                tard = max(0, int(r[0]) - dl)
                if int(r[3]) != dl or int(r[4]) != tard:
                    bad.append("TASK_GRAPH_FINISHED row of %s at %s reports deadline %s tardiness %s, truth %s %s"
                               % (r[2], r[0], r[3], r[4], dl, tard))
    missed_g_rows = {r[2] for r in rows if len(r) > 2 and r[1] == "MISSED_TASK_GRAPH_DEADLINE"}
    # every task finished after its graph's deadline produces the row; a graph none of whose tasks finished late has none
    late_graphs = set()
    for name, e in finishes.items():
        g = name.split("@", 1)[1]
        if g in gdl0 and e[6][0] > gdl0[g]:
            late_graphs.add(g)
    if missed_g_rows != late_graphs:
        bad.append("MISSED_TASK_GRAPH_DEADLINE rows for %s, graphs with a task finishing after the graph deadline: %s"
                   % (sorted(missed_g_rows)[:4], sorted(late_graphs)[:4]))
    # ---- TASK_SCHEDULED rows against the placed decisions, TASK_SKIP rows against the unplaced ones
    sched_rows = [r for r in rows if len(r) > 9 and r[1] == "TASK_SCHEDULED"]
    placed_decs = [(d[1], x) for d in decs for x in d[2] if x[0] == "PLACE_TASK" and x[3] is not None]
    if len(sched_rows) != len(placed_decs):
        bad.append("%d TASK_SCHEDULED rows for %d placed decisions" % (len(sched_rows), len(placed_decs)))
    for r, (tm, x) in zip(sched_rows, placed_decs):
        name = "%s@%s" % (r[2], r[3])
        if name != x[1] or int(r[0]) != tm or int(r[7]) != x[5] or (x[7] is not None and int(r[9]) != x[7]):
            bad.append("TASK_SCHEDULED row %s does not match the decision %s at %s" % (r[:10], x, tm))
            break
    # ---- utilisation rows: allocated + available = total, and allocated equals what the ledger reported last
    totals = {}
    for e in log:
        if e[0] == "cluster":
            for pool in e[1]:
                agg = {}
                for (_w, res) in pool[2]:
                    for (rn, _i, q) in res:
                        agg[rn] = agg.get(rn, 0) + q
                totals[pool[1]] = agg
    for r in rows:
        if len(r) > 5 and r[1] == "WORKER_POOL_UTILIZATION":
            tot = totals.get(r[2], {}).get(r[3])
            if tot is not None and int(float(r[4])) + int(float(r[5])) != tot:
                bad.append("WORKER_POOL_UTILIZATION row %s: allocated + available != total %s" % (r, tot))
                break
    # ---- end-of-run summary
    end = [r for r in rows if len(r) > 1 and r[1] == "SIMULATOR_END"]
    if len(end) != 1:
        bad.append("%d SIMULATOR_END rows" % len(end))
    else:
        e = [int(x) for x in end[0][2:8]]
        n_completed = sum(1 for f in run["final"] if f[1] == "COMPLETED")
        g_fin = sum(1 for g in run["graphs"] if g[1])
        g_canc = sum(1 for g in run["graphs"] if g[2])
        gdl = {g[0]: g[3] for g in run["graphs"]}
        g_miss = 0
        for r in rows:
            if len(r) > 1 and r[1] == "TASK_GRAPH_FINISHED" and int(r[0]) > gdl.get(r[2], 10 ** 18):
                g_miss += 1
        truth = [n_completed, len(canc_truth), n_missed_truth, g_fin, g_canc, g_miss]
        names = ["finished tasks", "cancelled tasks", "missed task deadlines", "finished task graphs", "cancelled task graphs",
                 "missed task graph deadlines"]
        for a, b, n in zip(e, truth, names):
            if a != b:
                bad.append("SIMULATOR_END reports %s %s, the run had %s" % (a, n, b))
    return bad


def f18_signature(run, rr):
    """history signature of known finding F18 (see known_findings.json): the reader's dropped-taskgraphs assertion fails
    because some graph has a TASK_CANCEL row, no TASK_GRAPH_FINISHED row, and is not cancelled as a whole at the end."""
    if not rr.get("error", "").startswith("AssertionError"):
        return False
    rows = rows_of(run)
    canc = {r[5] for r in rows if len(r) > 5 and r[1] == "TASK_CANCEL"}
    fin = {r[2] for r in rows if len(r) > 2 and r[1] == "TASK_GRAPH_FINISHED"}
    whole = {g[0] for g in run["graphs"] if g[2]}
    partial = [g for g in canc if g not in fin and g not in whole]
    end = [r for r in rows if len(r) > 1 and r[1] == "SIMULATOR_END"]
    if not partial or len(end) != 1:
        return False
    # with the partially cancelled graphs discounted, the reader's three sanity checks would hold
    reader_cancelled = len([g for g in canc if g not in fin])
    return reader_cancelled - len(partial) == int(end[0][6])


def mon_c08_outside_f41(run, world):
    """known finding F41 (see known_findings.json): worlds in which a policy or a loader hands the simulator time values that
    are not expressed in microseconds are judged by the F41 replay only"""
    import simgen
    if "non_us_times" in simgen.signature(world):
        return []
    return mon_c08(run, world)


def outside_rows_model(world):
    """worlds whose traces the rows model does not describe: placement times / runtimes that are not in microseconds reach
    the rows as raw magnitudes (known finding F41), and Clockwork worlds (loaded profiles hold resources that no task
    requested: outside the machine)"""
    fz = world.get("fuzz")
    # (worlds whose only non-microsecond values are task DEADLINES are inside: every modelled row prints deadlines converted)
    return bool(fz and fz.get("coarse_units")) or bool(world.get("direct", {}).get("coarse_runtimes")) \
        or world["flags"].get("scheduler") == "Clockwork"


def rows_tie(ctx, worlds, runs):
    """S-rows: the rows the REAL simulator wrote vs the rows the machine emits for the same call log (Model/SimRows.v,
    theorems Props/C08_rows.v), compared inside Coq row by row and in order."""
    ctx.rules.append("S-rows: for every generated simulation that ended, the captured CSV rows of the kinds WORKER_POOL_UTILIZATION, "
                     "TASK_RELEASE, TASK_PLACEMENT, TASK_FINISHED, MISSED_DEADLINE, TASK_CANCEL, SIMULATOR_END (names -> ids, resources "
                     "aggregated by name, each utilisation block sorted) must equal rows_of(call log) computed by the machine")
    try:
        mism, fed = simcommon.rows_stream(ctx, worlds, runs, outside=outside_rows_model)
    except core.ModelEvalError as e:
        ctx.broken.append({"kind": "correspondence", "name": "S-rows (rows model does not evaluate)", "detail": str(e)[-500:]})
        return
    for (i, j, mrow, irow) in mism[:3]:
        kind = simcommon.ROW_KINDS[irow[0]] if irow else (simcommon.ROW_KINDS[mrow[0]] if mrow and mrow[0] >= 0 else "?")
        if mrow == [-1] or (isinstance(mrow, list) and mrow and mrow[0] == -1):
            # the machine rejected the call log: the S-sim tie reports that; nothing to say about rows
            continue
        ctx.violation("rows_world%d" % i, {
            "stream": "S-rows", "what": "row %d of the trace (of the modelled kinds) is not the row the run implies: %s" % (j, kind),
            "row_implied_by_the_run": mrow, "row_written_by_the_simulator": irow,
            "row_format": "[kind, time, ...] kinds 0 UTILIZATION(pool,res,alloc,avail) 1 RELEASE(task,release,deadline) "
                          "2 PLACEMENT(task,runtime,req) 3 FINISHED(task,completion,deadline) 4 MISSED(task,deadline) 5 CANCEL(task) "
                          "6 END(finished,cancelled,missed)",
            "world": worlds[i]})


def grows_tie(ctx, worlds, runs):
    """S-grows: TASK_GRAPH_FINISHED / MISSED_TASK_GRAPH_DEADLINE rows and the three graph counters of SIMULATOR_END written by
    the REAL simulator vs what the machine emits for the same call log (Model/SimGraphRows.v), inside Coq, in order."""
    ctx.rules.append("S-grows: for every generated simulation that ended, the TASK_GRAPH_FINISHED and MISSED_TASK_GRAPH_DEADLINE rows "
                     "and the graph counters of SIMULATOR_END must equal grows_of(graph descriptions at load time, call log)")
    import simgen
    try:
        mism, fed = simcommon.grows_stream(
            ctx, worlds, runs, outside=lambda w: bool(w.get("fuzz") and w["fuzz"].get("coarse_units")))
    except core.ModelEvalError as e:
        ctx.broken.append({"kind": "correspondence", "name": "S-grows (graph rows model does not evaluate)", "detail": str(e)[-500:]})
        return
    for (i, j, mrow, irow) in mism[:3]:
        if isinstance(mrow, list) and mrow and mrow[0] == -1:
            continue          # the machine rejected the call log: reported by the S-sim tie
        ctx.violation("grows_world%d" % i, {
            "stream": "S-grows", "what": "graph-level row %d of the trace is not the row the run implies" % j,
            "row_implied_by_the_run": mrow, "row_written_by_the_simulator": irow,
            "row_format": "[kind, time, ...] kinds 0 TASK_GRAPH_FINISHED(graph,deadline,tardiness) 1 MISSED_TASK_GRAPH_DEADLINE(graph,deadline) "
                          "2 SIMULATOR_END(finished graphs, cancelled graphs, missed graph deadlines)",
            "world": worlds[i]})


def run(ctx):
    worlds, runs = simcheck.run_sim_property(ctx, ["C08", "C08_rows"], mon_c08_outside_f41,
                                             "a row of the CSV trace or the end-of-run summary disagrees with what happened in the run",
                                             deps=["Model/SimRows.v", "Model/SimGraphRows.v"])
    rows_tie(ctx, worlds, runs)
    grows_tie(ctx, worlds, runs)
    # ---- the project's own reader must accept every trace and reconstruct the run
    import simgen
    # closed-loop worlds: the reader is known to reject them (F9), replayed separately below
    idx = [i for i, r in enumerate(runs) if r["status"] == "ended" and r["rows"]
           and not ({"closed_loop", "non_us_times"} & simgen.signature(worlds[i]))]
    ctx.cov.setdefault("input_distribution", {})["worlds_matching_known_finding_F41"] = \
        sum(1 for w in worlds if "non_us_times" in simgen.signature(w))
    for k in core.load_known():
        if k.get("status") == "known" and k.get("property") == "C08" and k.get("id") == "F41":
            w = json.load(open(os.path.join(core.ROOT, k["witness"])))
            r = simcommon.run_worlds([w], jobs=1, chunk=1)[0]
            if r["status"] == "ended" and mon_c08(r, w):
                ctx.known("F41", k["what_fails"])
    res = core.run_impl("csvread.py", {"traces": [runs[i]["rows"] for i in idx]}, timeout=600)["results"]
    rejected = 0
    recon_bad = 0
    known_f18 = 0
    for i, rr in zip(idx, res):
        r = runs[i]
        if not rr["ok"] and f18_signature(r, rr):
            known_f18 += 1
            continue
        if not rr["ok"]:
            rejected += 1
            if rejected <= 3:
                ctx.violation("reader%d" % i, {"stream": "S-sim CSVReader", "what": "the project's CSVReader rejects a trace the simulator wrote",
                                               "error": rr["error"], "world": worlds[i], "rows_tail": r["rows"][-6:]})
            continue
        names = {}
        for row in r["rows"]:
            f = row.split(",")
            if len(f) > 8 and f[1] == "TASK_RELEASE":
                names[f[7]] = "%s@%s" % (f[2], f[8])
        final = {f[0]: f for f in r["final"]}
        msgs = []
        for tid, t in rr["tasks"].items():
            n = names.get(tid)
            if n is None or n not in final:
                continue
            f = final[n]
            if f[1] == "COMPLETED" and (t["completion"] != f[3] or t["placement"] != f[2]):
                msgs.append("reader: %s placed %s completed %s, run: started %s completed %s" % (n, t["placement"], t["completion"], f[2], f[3]))
            if t["release"] != f[4]:
                msgs.append("reader: %s released %s, run: %s" % (n, t["release"], f[4]))
            if t["cancelled"] != (f[1] == "CANCELLED"):
                msgs.append("reader: %s cancelled=%s, run state %s" % (n, t["cancelled"], f[1]))
        if rr["end"] != r["counters"]:
            msgs.append("reader summary %s, simulator counters %s" % (rr["end"], r["counters"]))
        if msgs:
            recon_bad += 1
            if recon_bad <= 3:
                ctx.violation("recon%d" % i, {"stream": "S-sim CSVReader", "what": "the reader's reconstruction does not match the run",
                                              "failures": msgs[:5], "world": worlds[i]})
    ctx.cov["streams"]["S-sim:CSVReader"] = {"cases": len(idx), "rejected": rejected, "reconstruction_mismatch": recon_bad,
                                             "matching_known_finding_F18": known_f18}
    for k in core.load_known():
        if k.get("status") == "known" and k.get("property") == "C08" and k.get("id") == "F18":
            w = json.load(open(os.path.join(core.ROOT, k["witness"])))
            r = simcommon.run_worlds([w], jobs=1, chunk=1)[0]
            if r["status"] == "ended":
                rr = core.run_impl("csvread.py", {"traces": [r["rows"]]})["results"][0]
                if not rr["ok"] and f18_signature(r, rr):
                    ctx.known("F18", k["what_fails"])
    # ---- known finding F9: closed-loop graphs created at run time never get a TASK_GRAPH_RELEASE row
    for k in core.load_known():
        if k.get("status") == "known" and k.get("property") == "C08" and k.get("id") == "F9":
            w = json.load(open(os.path.join(core.ROOT, k["witness"])))
            r = simcommon.run_worlds([w], jobs=1, chunk=1)[0]
            if r["status"] == "ended":
                rr = core.run_impl("csvread.py", {"traces": [r["rows"]]})["results"][0]
                if not rr["ok"]:
                    ctx.known("F9", k["what_fails"])
                ctx.cov.setdefault("input_distribution", {})["F9_replay"] = "rejected" if not rr["ok"] else "accepted"
