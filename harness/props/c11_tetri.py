"""C11 (TetriSched-Gurobi part) — every satisfying assignment of the space-time MIP orders children after
their parents and places a child only if all its co-decided parents are placed."""
import core
from props import c10_tetri as T

TRUSTED = T.TRUSTED
PROPS = "C11_tetri"


def run(ctx):
    T.prepare(ctx, PROPS)
    ng, nc = T.sizes(ctx)
    n = ng + nc // 2
    worlds = T.generate(ctx, n - n // 2, 0, force={"release_tg": True, "dag": True})
    # parents SCHEDULED by an earlier invocation with their FAST strategy (remaining time < slowest runtime), re-offered
    worlds += T.generate(ctx, n // 2, 0, force={"release_tg": True, "dag": True, "sched_fast_parent": True, "retract": True})
    worlds += [T.running_parent_world(ctx.rng) for _ in range(10 if ctx.tier == "quick" else 80)]
    results = T.run_worlds(worlds, probe=T.probe_spec(ctx, ["c11"], max_pairs=8))
    ctx.rules.append("half of the worlds have a parent SCHEDULED earlier with the faster of two strategies (remaining time differs from "
                     "the slowest runtime) and re-offered; adversarial probes: for EVERY (parent, child) pair with variables (at most 8 per world, re-offered SCHEDULED parents first) the live model is "
                     "re-optimised to minimise start(child) - start(parent) - chosen runtime of the parent with the child placed; every "
                     "assignment found goes through the monitors")
    ctx.rules.append(
        "worlds as in C10_tetri, Gurobi back-end with release_taskgraphs (whole graphs offered): chains, joins and forks "
        "whose parents are virtual / released / scheduled / running / completed; distinct = distinct world JSON; non-trivial = "
        "the model contains a task with a parent that has variables in the same invocation and some task is placed")

    def nontrivial(w, r):
        return any(t["parents"] for t in r["inst"]["tasks"]) and any(p["placed"] for p in (r.get("placements") or []))
    T.coverage(ctx, worlds, results, nontrivial)
    for w, r in list(zip(worlds, results))[:2]:
        ctx.sample({"world": w, "placements": r.get("placements")})
    T.scheduler_errors(ctx, worlds, results)
    T.stream_csys(ctx, worlds, results)
    T.stream_readback(ctx, worlds, results)
    T.monitor_wf(ctx, worlds, results)
    T.monitor_plans(ctx, worlds, results, "M-precedence", "(fun p => precedence_c11b (fst p) (snd p))",
                    "a child was placed although a co-decided parent was not, or it starts before a parent's planned end "
                    "(start + chosen runtime) / a running parent's expected finish (now + remaining)")
    if ctx.broken:
        T.py_monitor_fallback(ctx, worlds, results)
