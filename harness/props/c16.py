"""C16 — time is an exact, totally ordered integer quantity; the event queue pops in key order."""
import core
from core import gz, glist, gopt

FILES = ["utils.py", "simulator.py"]
TRUSTED = [
    "translator py2v.py fragments Time (utils.EventTime: Unit values/order/ratio, to, __add__, __sub__, __eq__, "
    "__lt__, __mul__, __hash__, is_invalid, zero, invalid) and Event (EventType values, Event.__lt__, task-carrying types)",
    "IEEE-754 double arithmetic: `int(time * ratio)` is modelled by the exact rational product; exact for |us| < 2^53 "
    "(the property's bound), checked at the boundaries by the S-time stream, not proved (no Flocq proof)",
    "CPython heapq (heappush/heappop/heapify implement a priority queue for a strict weak order) and "
    "functools.total_ordering are modelled, not verified; the S-queue stream compares them with the model",
    "the simulator's event times are in microseconds, so Event.time comparisons are integer comparisons (by the Time theorems)",
]
# the documented priority at equal times (README / comments of EventType): index = priority
DOC_NAMES = ["SIMULATOR_START", "TASK_CANCEL", "EVICT_PROFILE", "TASK_FINISHED", "TASK_GRAPH_RELEASE", "TASK_RELEASE",
             "UPDATE_WORKLOAD", "TASK_PREEMPT", "TASK_MIGRATION", "LOAD_PROFILE", "TASK_PLACEMENT", "SCHEDULER_START",
             "SCHEDULER_FINISHED", "SIMULATOR_END", "LOG_UTILIZATION"]
UN = ["U_US", "U_MS", "U_S"]
B = 2 ** 53 - 1


def g_et(p):
    return "(mkET %s %s)" % (gz(p[0]), UN[p[1]])


def gen_time_ops(rng, n):
    ops = []
    vals = [0, 1, -1, -2, -3, 2, 3, 7, 999, 1000, 1001, -1000, -2000, 1500, 10 ** 6, 10 ** 6 + 1, -10 ** 6, -2 * 10 ** 6, 123456789]

    def et(maxus=B):
        u = rng.randrange(3)
        f = [1, 1000, 10 ** 6][u]
        r = rng.random()
        if r < 0.5:
            t = rng.choice(vals)
        elif r < 0.7:
            t = rng.randint(-5000, 5000)
        elif r < 0.85:
            t = rng.choice([-1, 1]) * (maxus // f - rng.randrange(3))
        else:
            t = rng.randint(-(maxus // f), maxus // f)
        if abs(t * f) > maxus:
            t = maxus // f
        return [t, u]

    kinds = ["add", "sub", "eq", "lt", "le", "gt", "ge", "ne", "hash", "to", "mul", "inv", "assoc", "dict"]
    for i in range(n):
        k = kinds[i % len(kinds)] if i < 4 * len(kinds) else rng.choice(kinds)
        if k in ("add", "sub"):
            # the property quantifies over OPERANDS below 2^53 us: in a third of the cases the exact result lies beyond 2^53
            m = B if rng.random() < 0.35 else B // 2
            a, b = et(m), et(m)
            ops.append([k, a, b])
        elif k in ("eq", "lt", "le", "gt", "ge", "ne", "dict") and rng.random() < 0.15:
            # neighbours of the `invalid` marker (-1us) in every unit: values whose integer hash CPython alters
            a = [rng.choice([-1, -2, -3, 0]), 0]
            bus = rng.choice([-1, -2, -3, -1000, -2000, -1000000, -2000000])
            u2 = rng.randrange(3)
            f2 = [1, 1000, 10 ** 6][u2]
            b = [bus // f2, u2] if bus % f2 == 0 else [bus, 0]
            ops.append([k, a, b] if rng.random() < 0.5 else [k, b, a])
        elif k in ("eq", "lt", "le", "gt", "ge", "ne", "dict"):
            a = et(B // 2)
            if rng.random() < 0.4:   # equal instants in different units
                us = a[0] * [1, 1000, 10 ** 6][a[1]]
                u2 = rng.randrange(3)
                f2 = [1, 1000, 10 ** 6][u2]
                b = [us // f2, u2] if us % f2 == 0 else et(B // 2)
            else:
                b = et(B // 2)
            ops.append([k, a, b])
        elif k == "hash" or k == "inv":
            ops.append([k, et()])
        elif k == "to":
            ops.append([k, et(), rng.randrange(3)])
        elif k == "mul":
            a = et(10 ** 9)
            ops.append([k, a, rng.choice([0, 1, -1, 2, 3, 1000, -7])])
        elif k == "assoc":
            m = B if rng.random() < 0.3 else B // 4
            ops.append([k, et(m), et(m), et(m)])
    return ops


def g_top(op):
    k = op[0]
    name = {"add": "TAdd", "sub": "TSub", "eq": "TEq", "lt": "TLt", "le": "TLe", "gt": "TGt", "ge": "TGe",
            "ne": "TNe", "dict": "TDict"}.get(k)
    if name:
        return "(%s %s %s)" % (name, g_et(op[1]), g_et(op[2]))
    if k == "hash":
        return "(THash %s)" % g_et(op[1])
    if k == "inv":
        return "(TInv %s)" % g_et(op[1])
    if k == "to":
        return "(TTo %s %s)" % (g_et(op[1]), UN[op[2]])
    if k == "mul":
        return "(TMul %s %s)" % (g_et(op[1]), gz(op[2]))
    if k == "assoc":
        return "(TAssoc %s %s %s)" % (g_et(op[1]), g_et(op[2]), g_et(op[3]))
    raise ValueError(k)


TASK_TYPES = [1, 5, 10, 7, 8, 3]       # event types that carry a task
ALL_TYPES = list(range(15))
NAMES = ["t00", "t01", "t02", "t03"]


def gen_queue_hist(rng, maxops):
    h = []
    live = []
    nid = 0
    times = [0, 1, 1, 2, 5, 5, 5, 9] if rng.random() < 0.6 else [1, 2, 3, 4, 5, 6, 7, 8, 9, 10]
    long_ = rng.random() < 0.35          # some histories build a queue of 7-12 events before disturbing it
    nops = rng.randint(3, maxops) if not long_ else rng.randint(12, maxops + 14)
    for step in range(nops):
        r = rng.random()
        if long_ and step < 7:
            r = 0.0
        if long_ and 7 <= step < 10 and live:
            r = rng.choice([0.5, 0.5, 0.6, 0.2])
        if r < 0.45 or not live:
            ty = rng.choice(ALL_TYPES if rng.random() < 0.5 else [3, 5, 10, 11, 12])
            name = rng.choice(NAMES) if ty in TASK_TYPES else None
            h.append(["push", nid, rng.choice(times), ty, name])
            live.append(nid)
            nid += 1
        elif r < 0.55:
            i = rng.choice(live)
            live.remove(i)
            h.append(["remove", i])
        elif r < 0.70:
            h.append(["retime", rng.choice(live), rng.choice(times)])
        elif r < 0.88:
            h.append(["pop"])
            # which id leaves is decided by the queue; the generator only needs `live` to
            # know which ids may still be addressed, so it is recomputed by replaying below
            live = None
        elif r < 0.93:
            h.append(["peek"])
        elif r < 0.98:
            h.append(["next", rng.choice([3, 5, 10, 11])])
        else:
            h.append(["len"])
        if live is None:
            live = replay_live(h)
    h += [["pop"]] * (len(replay_live(h)) + 1)
    return h


def _key(ev):
    return (ev[0], ev[1], ev[2] if ev[2] is not None else "")


def replay_live(h):
    """ids still pending after history h (reference semantics: pop takes a minimum by key; ties by id
    are irrelevant to the observation because only keys are observed, but ids matter for later
    remove/retime, so histories avoid addressing ids whose key ties with another pending event)."""
    pend = {}
    for op in h:
        if op[0] == "push":
            pend[op[1]] = [op[2], op[3], op[4]]
        elif op[0] == "remove":
            pend.pop(op[1], None)
        elif op[0] == "retime":
            if op[1] in pend:
                pend[op[1]][0] = op[2]
        elif op[0] == "pop" and pend:
            m = min(pend, key=lambda i: (_key(pend[i]), i))
            del pend[m]
    return sorted(pend)


def ambiguous(h):
    """True if some pop happens while two pending events tie on the key and one of them is
    addressed (removed / re-timed) later: then which physical event left the queue is not
    determined by the ordering and the history is not a valid test of it."""
    pend = {}
    tied_popped = set()
    for op in h:
        if op[0] == "push":
            pend[op[1]] = [op[2], op[3], op[4]]
        elif op[0] == "remove":
            if op[1] in tied_popped:
                return True
            pend.pop(op[1], None)
        elif op[0] == "retime":
            if op[1] in tied_popped:
                return True
            if op[1] in pend:
                pend[op[1]][0] = op[2]
        elif op[0] == "pop" and pend:
            m = min(pend, key=lambda i: (_key(pend[i]), i))
            ties = [i for i in pend if _key(pend[i]) == _key(pend[m])]
            if len(ties) > 1:
                tied_popped.update(ties)
            del pend[m]
    return False


def g_event(i, t, ty, name):
    return "(mkEv %s %s %s %s)" % (gz(t), DOC_NAMES[ty], gopt(None if name is None else NAMES.index(name), gz), gz(i))


def g_qops(h):
    out = []
    for op in h:
        k = op[0]
        if k == "push":
            out.append("OPush %s" % g_event(op[1], op[2], op[3], op[4]))
        elif k == "remove":
            out.append("ORemove %s" % gz(op[1]))
        elif k == "retime":
            out.append("ORetime %s %s" % (gz(op[1]), gz(op[2])))
        elif k == "pop":
            out.append("OPop")
        elif k == "peek":
            out.append("OPeek")
        elif k == "next":
            out.append("ONext (event_type_value %s)" % DOC_NAMES[op[1]])
        elif k == "len":
            out.append("OLen")
    return glist(out)


def canon_obs(obs):
    def ck(k):
        if k == []:
            return []
        return [k[0], k[1], [] if k[2] == [] else [NAMES.index(k[2][0])]]
    out = []
    for o in obs:
        if isinstance(o, int):
            out.append(o)
        elif o == []:
            out.append([])
        elif len(o) == 1 and isinstance(o[0], list):
            out.append([ck(o[0])])
        else:
            out.append(ck(o))
    return out


def run(ctx):
    ctx.fingerprint(FILES)
    ctx.translate(["Time", "Event"])
    built = ctx.build("C16", deps=["Model/TimeObs.v", "Model/EventQ.v"])
    quick = ctx.tier == "quick"
    n_time = 1200 if quick else 12000
    n_q = 400 if quick else 6000

    # ---------------- S-time
    ops = gen_time_ops(ctx.rng, n_time)
    hists = []
    while len(hists) < n_q:
        h = gen_queue_hist(ctx.rng, 10 if quick else 14)
        if not ambiguous(h):
            hists.append(h)
    impl = core.run_impl("time_queue.py", {"time_ops": ops, "queue": hists, "doc_names": DOC_NAMES})
    ctx.rules.append("S-time: EventTime operators on generated pairs/triples over {us,ms,s} incl. negatives, -1, equal "
                     "instants in different units and +-(2^53-1) boundaries; distinct = distinct (operator, operands); "
                     "non-trivial = operands in different units or an error result")
    seen = set()
    nontriv = 0
    kinds = {}
    errs = 0
    for o, r in zip(ops, impl["time"]):
        kinds[o[0]] = kinds.get(o[0], 0) + 1
        key = repr(o)
        if key in seen:
            continue
        seen.add(key)
        units = {x[1] for x in o[1:] if isinstance(x, list)}
        if len(units) > 1 or r[0] == 1 or (o[0] == "to" and o[1][1] != o[2]):
            nontriv += 1
        errs += r[0] == 1
    ctx.cov["distinct_nontrivial"] += nontriv
    ctx.cov["input_distribution"] = {"time_ops_by_kind": kinds, "time_errors": errs}
    ctx.sample({"stream": "S-time", "op": ops[5], "impl": impl["time"][5]})
    if built or True:
        try:
            cases = [(g_top(o), r, o) for o, r in zip(ops, impl["time"])]
            mism = ctx.model_stream("S-time", "From Verif Require Import Gen.Src_Time Model.TimeObs.", "top",
                                    "t_observe", cases)
            for idx, mv in mism[:3]:
                ctx.violation("time%d" % idx, {"stream": "S-time", "case": ops[idx], "implementation": impl["time"][idx],
                                                "model": mv,
                                                "what": "EventTime operator disagrees with exact microsecond arithmetic"})
        except core.ModelEvalError as e:
            ctx.broken.append({"kind": "correspondence", "name": "S-time", "detail": str(e)[-600:]})
            # the translated definitions no longer evaluate: fall back to the arithmetic spec itself
            for o, r in zip(ops, impl["time"]):
                exp = spec_time(o)
                if exp is not None and core.norm_val(exp) != core.norm_val(r):
                    ctx.violation("time_spec", {"stream": "S-time(spec)", "case": o, "implementation": r, "spec": exp})
                    break

    # ---------------- S-queue
    ctx.rules.append("S-queue: histories of add/remove/retime(+reheapify)/pop/peek/next_of_type/len on <= 14 events with "
                     "many equal times and types; distinct = distinct history; non-trivial = contains a pop while >= 2 events "
                     "are pending and a remove or retime before it")
    seenh = set()
    nt = 0
    opk = {}
    for h in hists:
        for op in h:
            opk[op[0]] = opk.get(op[0], 0) + 1
        k = repr(h)
        if k in seenh:
            continue
        seenh.add(k)
        if any(op[0] in ("remove", "retime") for op in h) and sum(op[0] == "push" for op in h) >= 2:
            nt += 1
    ctx.cov["distinct_nontrivial"] += nt
    ctx.cov["input_distribution"]["queue_ops_by_kind"] = opk
    ctx.sample({"stream": "S-queue", "history": hists[0], "impl_observations": impl["queue"][0]["obs"]})
    try:
        cases = [(g_qops(h), canon_obs(r["obs"]), h) for h, r in zip(hists, impl["queue"])]
        mism = ctx.model_stream("S-queue", "From Verif Require Import Gen.Src_Event Model.EventQ.", "list qobs_op",
                                "(fun ops => L (q_observe ops []))", cases)
        for idx, mv in mism[:3]:
            ctx.violation("queue%d" % idx, {"stream": "S-queue", "history": hists[idx],
                                             "implementation": canon_obs(impl["queue"][idx]["obs"]), "model": mv,
                                             "what": "EventQueue observations differ from the abstract priority queue"})
        # monitor on the implementation's own pop log: popped key minimal among pending keys
        mons = []
        where = []
        for hi, r in enumerate(impl["queue"]):
            for (k, pend) in r["pops"]:
                def gk(x):
                    return "(%s, %s, %s)" % (gz(x[0]), gz(x[1]), gz(NAMES.index(x[2]) if x[2] is not None else 0))
                mons.append("(%s, %s)" % (gk(k), glist([gk(x) for x in pend])))
                where.append(hi)
        bad = ctx.monitor_stream("S-queue", "From Verif Require Import Gen.Src_Event Model.EventQ.",
                                 "(Z*Z*Z) * list (Z*Z*Z)", "(fun p => pop_minimal (fst p) (snd p))", mons)
        for b in bad[:3]:
            ctx.violation("popmin%d" % b, {"stream": "S-queue monitor", "history": hists[where[b]],
                                           "what": "the implementation popped an event that was not minimal among the pending ones",
                                           "pop": mons[b]})
    except core.ModelEvalError as e:
        ctx.broken.append({"kind": "correspondence", "name": "S-queue", "detail": str(e)[-600:]})


def spec_time(o):
    f = [1, 1000, 10 ** 6]

    def us(p):
        return p[0] * f[p[1]]
    k = o[0]
    if k in ("add", "sub"):
        u = min(o[1][1], o[2][1])
        s = us(o[1]) + us(o[2]) if k == "add" else us(o[1]) - us(o[2])
        return [0, [s // f[u], u]]
    if k == "eq":
        return [0, int(us(o[1]) == us(o[2]))]
    if k == "lt":
        return [0, int(us(o[1]) < us(o[2]))]
    if k == "hash":
        return [0, us(o[1])]
    if k == "to":
        return [1, 1] if o[2] > o[1][1] else [0, [us(o[1]) // f[o[2]], o[2]]]
    return None
