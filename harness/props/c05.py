"""C05 — every simulation terminates, and feasible work is always finished (proof of the safety half, partial)."""
import json
import os
import random

import core
import simcheck
import simcommon
import simgen
from core import gz, gbool, gopt

TRUSTED = simcheck.TRUSTED_SIM + [
    "Model/NextSched.v is a hand-written model of Simulator.__get_next_scheduler_event, tied by the S-nextsched stream: "
    "inputs and answer of every call in whole simulations (observed by a wrapper in the harness)",
    "PARTIAL: global termination and the liveness clause are NOT proved; they are monitored on every generated run "
    "(watchdog on zero-length clock steps and wall clock; all tasks complete in feasible work-conserving worlds)"]

HEADER = "From Verif Require Import Model.NextSched."


def g_ns(p):
    return ("(mkNS %s %s %s %s %s %s %s %s %s %s %s %s %s %s %s)" % (
        gz(p["now"]), gz(p["freq"]), gz(p["last"]), gz(p["timeout"]), gz(p["delay"]), gbool(p["worker_free"]),
        gopt(p["min_completion"], gz), gz(p["n_running"]), gz(p["n_sched"]), gbool(p["all_running_or_scheduled"]),
        gbool(p["full"]), gbool(p["no_compatible"]), gopt(p["next_release"], gz), gopt(p["next_update"], gz),
        gbool(p["queue_empty"])))


def fits_empty(worker, req):
    """does the strategy request fit this worker when it is empty (explicit unit ids respected)"""
    units = {}
    for r in worker["resources"]:
        n, _, i = r["name"].partition(":")
        units.setdefault(n, {})
        units[n][i or "_"] = units[n].get(i or "_", 0) + r["quantity"]
    taken = {}
    for k, q in req.items():
        n, _, i = k.partition(":")
        if i and i != "any":
            if units.get(n, {}).get(i, 0) < q:
                return False
            taken[n] = taken.get(n, 0) + q
    for k, q in req.items():
        n, _, i = k.partition(":")
        if not i or i == "any":
            if sum(units.get(n, {}).values()) - taken.get(n, 0) < q:
                return False
    return True


def feasible_world(w):
    """each task has a strategy that fits some worker of the empty cluster"""
    workers = [wk for p in w["workers"] for wk in p["workers"]]
    for p in w["workload"]["profiles"]:
        if not any(fits_empty(wk, s["resource_requirements"]) for s in p["execution_strategies"] for wk in workers):
            return False
    return True


def mon_c05(run, world):
    bad = []
    timeout = world["flags"]["loop_timeout"]
    if run["status"] in ("solver-licence-limit", "harness-timeout"):
        return bad
    if run["status"] != "ended":
        bad.append("simulate() did not return: %s %s" % (run["status"], (run.get("error") or "")[:200]))
        return bad
    ended = False
    for e in run["log"]:
        if e[0] == "handle":
            if e[1] > timeout:
                bad.append("event %s handled at %s, after the loop timeout %s" % (e[2], e[1], timeout))
            if e[2] == "SIMULATOR_END":
                ended = True
        elif e[0] == "nextsched" and "error" not in e[1]:
            p = e[1]
            if e[2] == "SIMULATOR_END" and e[3] != p["timeout"]:
                if not (p["queue_empty"] and p["n_sched"] == 0 and p["n_running"] == 0):
                    bad.append("SIMULATOR_END created at %s before the timeout while work remained: %s" % (e[3], p))
            if e[2] == "SCHEDULER_START" and (e[3] >= p["timeout"] or e[3] < p["now"]):
                bad.append("next scheduler start %s outside [now=%s, timeout=%s)" % (e[3], p["now"], p["timeout"]))
    if not ended:
        bad.append("the run ended without handling SIMULATOR_END")
    # liveness monitor: feasible work under a work-conserving policy is finished before a generous timeout
    fl = world["flags"]
    if (timeout >= 10 ** 6 and not fl.get("enforce_deadlines") and not fl.get("drop_skipped_tasks")
            and fl["scheduler"] in ("EDF", "FIFO", "LSF") and not world.get("fuzz") and feasible_world(world)):
        left = [f for f in run["final"] if f[1] not in ("COMPLETED", "CANCELLED")]
        has_cond = any(n.get("conditional") for g in world["workload"]["graphs"] for n in g["graph"])
        canc = [f for f in run["final"] if f[1] == "CANCELLED"]
        if left:
            bad.append("the run ended at %s with unfinished feasible work: %s" % (run["sim_time"], [(f[0], f[1]) for f in left[:4]]))
        if canc and not has_cond:
            bad.append("tasks were cancelled although nothing in the configuration cancels: %s" % [f[0] for f in canc[:4]])
    return bad


def replay_updates(ctx, n):
    """generated Alibaba-style traces replayed by `python main.py --execution_mode=replay --replay_trace=alibaba` with
    --workload_update_interval (the loader hands out its growing Workload window by window) under EDF/FIFO/LSF with a generous
    timeout: simulate() must return, write SIMULATOR_END, and every released task must finish"""
    import shutil
    import subprocess
    import tempfile
    from props import c09
    rng = random.Random("C05-replay-updates/%s" % ctx.seed)
    base = tempfile.mkdtemp(prefix="c05replay_", dir=core.BUILD if os.path.isdir(core.BUILD) else None)
    ran = bad = multi = 0
    try:
        for k in range(n):
            dags = c09.gen_trace(rng)
            for tasks in dags.values():
                for t in tasks:
                    t[1] = rng.choice([60, 80, 120])      # (the loader keeps graphs whose critical path is within (100, 1000))
            d = os.path.join(base, "t%d" % k)
            os.makedirs(d)
            tp = os.path.join(d, "trace.pkl")
            w = subprocess.run([core.PY, "-c", c09.WRITE_TRACE, core.REPO, tp], input=json.dumps(dags), capture_output=True,
                               text=True, timeout=120)
            if w.returncode != 0:
                ctx.broken.append({"kind": "correspondence", "name": "S-replay-updates (cannot write a trace)", "detail": w.stderr[-300:]})
                return
            wk = os.path.join(d, "workers.yaml")
            open(wk, "w").write("- name: WorkerPool_1\n  workers:\n      - name: Worker_1_1\n        resources:\n"
                                "            - name: Slot_1\n              quantity: 8\n")
            flags = ["--execution_mode=replay", "--replay_trace=alibaba", "--workload_profile_path=" + tp, "--worker_profile_path=" + wk,
                     "--scheduler=%s" % rng.choice(["EDF", "FIFO", "LSF"]), "--scheduler_runtime=0", "--random_seed=%d" % rng.randrange(1, 10 ** 6),
                     "--override_release_policy=poisson",
                     # (rate 0.002: arrivals about 500us apart - most update windows are empty and the cluster idles in between)
                     "--override_poisson_arrival_rate=%s" % rng.choice(["0.01", "0.002", "0.002"]),
                     "--override_num_invocation=%d" % rng.randint(3, 6), "--min_deadline_variance=50", "--max_deadline_variance=150",
                     "--workload_update_interval=%d" % rng.choice([100, 200, 400]), "--log_level=info", "--csv_file_name=out.csv",
                     "--log_file_name=log.txt", "--log_dir=" + d]
            env = dict(os.environ, PYTHONHASHSEED="0", PYTHONPATH=core.REPO)
            try:
                pr = subprocess.run([core.PY, os.path.join(core.REPO, "main.py")] + flags, cwd=d, env=env, capture_output=True, text=True,
                                    timeout=600)
            except subprocess.TimeoutExpired:
                continue                 # inconclusive under load, never a verdict
            ran += 1
            rows = [l.rstrip("\n").split(",") for l in open(os.path.join(d, "out.csv"))] if os.path.exists(os.path.join(d, "out.csv")) else []
            rel = sum(1 for r in rows if len(r) > 1 and r[1] == "TASK_RELEASE")
            fin = sum(1 for r in rows if len(r) > 1 and r[1] == "TASK_FINISHED")
            upd = sum(1 for r in rows if len(r) > 3 and r[1] == "UPDATE_WORKLOAD" and r[2] != "0")
            multi += upd >= 2
            ended = any(len(r) > 1 and r[1] == "SIMULATOR_END" for r in rows)
            msgs = []
            if pr.returncode != 0:
                err = [l for l in pr.stderr.strip().split("\n") if l.strip()]
                msgs.append("main.py exited with %d: %s" % (pr.returncode, err[-1][:200] if err else ""))
            elif not ended:
                msgs.append("the run wrote no SIMULATOR_END row")
            elif fin != rel:
                msgs.append("%d tasks were released but %d finished (EDF/FIFO/LSF without deadline enforcement, timeout 10^7 default)" % (rel, fin))
            if msgs:
                bad += 1
                if bad <= 2:
                    ctx.violation("replay_updates_t%d" % k, {
                        "stream": "S-replay-updates", "trace": dags, "flags": [f for f in flags if "profile_path" not in f and "log_dir" not in f],
                        "failures": msgs,
                        "what": "a replayed trace whose work arrives in several workload updates did not terminate properly / finish its work"})
    finally:
        shutil.rmtree(base, ignore_errors=True)
    ctx.cov["streams"]["S-replay-updates"] = {"traces": ran, "failing": bad, "runs_with_work_in_two_or_more_updates": multi}
    ctx.cov["evaluations"] += ran
    ctx.rules.append("S-replay-updates: generated Alibaba-style traces replayed with --workload_update_interval 100-400 (poisson arrivals "
                     "at rate 0.01 or 0.002, 3-6 invocations: work arrives in several update windows, with idle gaps at the low rate) under EDF/FIFO/LSF; the run must end "
                     "normally with SIMULATOR_END and as many TASK_FINISHED as TASK_RELEASE rows")


def run(ctx):
    worlds, runs = simcheck.run_sim_property(ctx, ["C05"], mon_c05,
                                             "the simulation did not terminate properly, handled events after the timeout, "
                                             "ended while work remained, or left feasible work unfinished",
                                             deps=["Model/NextSched.v"])
    # ---- S-nextsched: the hand-written rule against every observed call
    cases = []
    where = []
    errs = 0
    for i, r in enumerate(runs):
        for e in r["log"]:
            if e[0] != "nextsched":
                continue
            p = e[1]
            if "error" in p or "n_sched" not in p:
                errs += 1
                continue
            cases.append((g_ns(p), [1 if e[2] == "SIMULATOR_END" else 0, e[3]], p))
            where.append(i)
    ctx.cov.setdefault("input_distribution", {})["nextsched_calls"] = len(cases)
    ctx.cov["input_distribution"]["nextsched_unobservable"] = errs
    branch = {"end_timeout": 0, "end_idle": 0, "start_same_instant": 0, "start_later": 0}
    for (_, exp, p) in cases:
        if exp[0] == 1:
            branch["end_timeout" if exp[1] == p["timeout"] else "end_idle"] += 1
        else:
            branch["start_same_instant" if exp[1] == p["now"] else "start_later"] += 1
    ctx.cov["input_distribution"]["nextsched_answers"] = branch
    try:
        mism = ctx.model_stream("S-nextsched", HEADER, "ns_in", "(fun i => v_ns_out (next_sched i))", cases)
        for idx, mv in mism[:3]:
            ctx.violation("nextsched%d" % idx, {"stream": "S-nextsched", "inputs": cases[idx][2], "implementation": cases[idx][1],
                                                "model": mv, "world": worlds[where[idx]],
                                                "what": "the next-scheduler-time rule of the simulator differs from the model the C05 theorems are about"})
    except core.ModelEvalError as e:
        ctx.broken.append({"kind": "correspondence", "name": "S-nextsched", "detail": str(e)[-500:]})
    # ---- S-sim-branches: conditionals WITHOUT a join under work-conserving policies (kept out of the shared S-sim family, whose
    # planners and fuzzing policy would meet known finding F42 on them): termination and the liveness clause only
    brng = random.Random("C05-branches/%s" % ctx.seed)
    bworlds = []
    while len(bworlds) < (16 if ctx.tier == "quick" else 150):
        bw = simgen.gen_branch_world(brng)
        if "zero_runtime" not in simgen.signature(bw) and feasible_world(bw):
            bworlds.append(bw)
    bruns = simcommon.run_worlds(bworlds)
    bfail = 0
    taken = {"then": 0, "else": 0}
    for i, (bw, br) in enumerate(zip(bworlds, bruns)):
        msgs = mon_c05(br, bw) if br["log"] else (["no observation: %s" % br["status"]] if br["status"] not in ("harness-timeout",) else [])
        for f in br.get("final", []):
            if f[1] == "COMPLETED" and f[0].split("@")[0] in ("L", "Lz"):
                taken["then"] += 1
            if f[1] == "COMPLETED" and f[0].split("@")[0] in ("R", "R1", "Rz"):
                taken["else"] += 1
        if msgs:
            bfail += 1
            if bfail <= 3:
                ctx.violation("branch_world%d" % i, {"stream": "S-sim-branches monitor", "failures": msgs[:5], "world": bw,
                                                    "run_status": br["status"],
                                                    "what": "a feasible world with a join-less conditional under a work-conserving policy "
                                                            "did not terminate properly or ended with unfinished runnable work"})
    ctx.cov["streams"]["S-sim-branches:impl-monitor"] = {"cases": len(bworlds), "failing": bfail}
    ctx.cov["input_distribution"]["branch_worlds_completed_branch_tasks"] = taken
    ctx.rules.append("S-sim-branches: feasible worlds under EDF/FIFO/LSF (nothing cancels, timeout 10^6) whose first job graph is a "
                     "conditional without a join (each branch ends in its own sink) or with a side output inside a branch")
    # ---- S-replay-updates: the trace-replay path with PERIODIC workload updates (work arrives in several batches): every run must
    # end normally and finish everything it released (regression stream of the repaired finding F43)
    replay_updates(ctx, 6 if ctx.tier == "quick" else 30)
    # ---- known finding F8: a strategy with runtime 0 livelocks simulate()
    for k in core.load_known():
        if k.get("status") == "known" and k.get("property") == "C05" and k.get("id") == "F8":
            w = json.load(open(os.path.join(core.ROOT, k["witness"])))
            w["wall_limit"] = 60
            r = simcommon.run_worlds([w], jobs=1, chunk=1)[0]
            if r["status"] in ("livelock", "wallclock"):
                ctx.known("F8", k["what_fails"])
            ctx.cov["input_distribution"]["F8_replay_status"] = r["status"]
        if k.get("status") == "known" and k.get("property") == "C05" and k.get("id") == "F29":
            w = json.load(open(os.path.join(core.ROOT, k["witness"])))
            r = simcommon.run_worlds([w], jobs=1, chunk=1)[0]
            if r["status"] == "exception":
                ctx.known("F29", k["what_fails"])
            ctx.cov["input_distribution"]["F29_replay_status"] = r["status"]
        if k.get("status") == "known" and k.get("property") == "C05" and k.get("id") == "F20":
            w = json.load(open(os.path.join(core.ROOT, k["witness"])))
            r = simcommon.run_worlds([w], jobs=1, chunk=1)[0]
            if r["status"] == "exception" and "execution_strategy" in (r.get("error") or "") or "'NoneType' object has no attribute 'runtime'" in (r.get("error") or ""):
                ctx.known("F20", k["what_fails"])
            ctx.cov["input_distribution"]["F20_replay_status"] = r["status"]
