"""C14 (TetriSched part) — the plans returned by the TetriSched planners are maximal: no rewarded offered task can
be added at any (slot, worker, strategy) keeping feasibility; on tiny instances the solver's objective equals the
brute-force optimum of PlanSpec evaluated inside Coq (up to the 10% gap)."""
import json
import os

import core
from core import gz, glist, gnat
from props import c10_tetri as T

TRUSTED = T.TRUSTED + [
    "C14: solver optimality within MIPGap=0.1 (Gurobi) / default gap (CPLEX) is trusted; theorem C14_tetri_gap_maximal shows "
    "that such a gap cannot hide one task while the objective is below 10 units of reward",
]
PROPS = "C14_tetri"
CORPUS = os.path.join(core.ROOT, "corpus", "C14_tetri")


def plan_text(inst, res):
    exp, err = T.expected_readback(inst, res)
    if err:
        return None
    return glist(["(mkPl %s %s %s %s)" % (gz(t), gz(p[0]), gnat(p[1]) if p[1] >= 0 else gnat(99), gz(p[2])) for t, p in exp if p])


max_hyp_py = T.max_hyp_py


def tight_world(rng, flavour):
    """One worker with one CPU (sometimes split over two entries of a 2-CPU worker), 1-3 independent tasks whose runtimes add
    up exactly to the common deadline: every task can be placed only if the plan is back-to-back (touching intervals) starting
    at slot `now`.  The discretisation d is 1, 2, 3 or 5, runtimes are multiples of d and `now` is NOT a multiple of d."""
    d = rng.choice([1, 2, 3, 5])
    now = rng.choice([0, 1, 2]) if d == 1 else rng.choice([k for k in range(1, 3 * d) if k % d != 0])
    n = rng.choice([1, 2, 2, 3])
    rts = [d * rng.choice([1, 1, 2]) for _ in range(n)]
    cpus = 1
    res = [["CPU", 1]]
    if rng.random() < 0.4:      # two CPUs split over two entries, every task asks for both
        cpus = 2
        res = [["CPU", 1, "u0"], ["CPU", 1, "u1"]]
    graphs = []
    for k, rt in enumerate(rts):
        graphs.append({"name": "g%d" % k, "tasks": [{"name": "t%d0" % k, "strats": [[rt, [["CPU", cpus]]]], "children": [],
                                                      "release": rng.randint(0, now), "deadline": now + sum(rts),
                                                      "state": "released"}]})
    return {"now": now, "cfg": {"flavour": flavour, "enforce": True, "retract": True, "disc": d, "release_tg": False,
                                "plan_ahead": -1},
            "resources": T.RES, "pools": [[{"name": "W1", "res": res}]], "graphs": graphs}


def run(ctx):
    T.prepare(ctx, PROPS)
    quick = ctx.tier == "quick"
    ng, nc = (50, 30) if quick else (600, 300)
    worlds = T.generate(ctx, ng, nc, allow_running=False)
    seen = {T.world_key(w) for w in worlds}
    for k in range(24 if quick else 160):
        w = tight_world(ctx.rng, "gurobi" if k % 2 == 0 else "cplex")
        if T.world_key(w) not in seen:
            seen.add(T.world_key(w))
            worlds.append(w)
    for k in range(24 if quick else 160):      # partly executed RUNNING parents whose child fits only before now + runtime
        w = T.running_parent_world(ctx.rng)
        if T.world_key(w) not in seen:
            seen.add(T.world_key(w))
            worlds.append(w)
    results = T.run_worlds(worlds, probe=T.probe_spec(ctx, ["c14"]))
    ctx.rules.append("adversarial probes: among the OPTIMAL assignments of the live model (objective >= optimum), the one with the fewest "
                     "placements and one avoiding a chosen task are searched; they must be maximal too")
    ctx.rules.append(
        "worlds as in C10_tetri without RUNNING tasks (signature of F11-iii, exercised separately), both back-ends, task-by-task "
        "and whole-graph mode; the maximality monitor is applied where the hypotheses of C14_tetri_maximal hold (max_hypb: no "
        "running task, every parent of a task has variables); tiny worlds (<= 3 tasks, <= 2 workers, <= 2 strategies, <= 9 slots) "
        "are compared with the brute-force optimum over all plans; exactly tight back-to-back worlds (one CPU, runtimes adding up to "
        "the common deadline) exercise touching intervals; whole-graph worlds with a partly executed RUNNING parent whose child fits only in "
        "(now + remaining, now + runtime] (the monitor takes the parent's expected finish now + remaining from the world description and "
        "charges running tasks as the formulation does, so that known finding F11-iii stays apart); distinct = distinct world JSON; non-trivial = >= 2 tasks in the "
        "model and at least one task left unplaced or a capacity/precedence conflict between two placed tasks")

    def nontrivial(w, r):
        inst = r["inst"]
        pls = [p for p in (r.get("placements") or []) if p["type"] == "PLACE_TASK"]
        return len(inst["tasks"]) >= 2 and (any(not p["placed"] for p in pls) or len({p.get("start") for p in pls if p["placed"]}) >= 2)
    T.coverage(ctx, worlds, results, nontrivial)
    for w, r in list(zip(worlds, results))[:2]:
        ctx.sample({"world": w, "placements": r.get("placements"), "objective_scaled": r.get("objval")})
    T.scheduler_errors(ctx, worlds, results)
    T.stream_csys(ctx, worlds, results)
    T.stream_readback(ctx, worlds, results)
    T.monitor_wf(ctx, worlds, results)
    T.monitor_plans(ctx, worlds, results, "M-maximal", "(fun p => maximal_okb (fst p) (snd p))",
                    "a rewarded offered task was left unplaced although it can be added at some (slot, worker, strategy) keeping "
                    "capacity, release, precedence and deadline limits (formulation's convention: half-open occupation on the slot grid)",
                    skip=lambda inst: not T.maximal_hyp_py(inst), probe_kinds=["c14"])
    # a task cancelled by the admission control although it is not hopeless is goodput left on the table as well
    T.monitor_hopeless(ctx, worlds, results)
    # ---- brute force on tiny worlds
    nt = 24 if quick else 500
    tiny = T.generate(ctx, nt - nt // 3, nt // 3, tiny=True, allow_running=False)
    tres = T.run_worlds(tiny)
    cases = []
    for i, (w, r) in enumerate(zip(tiny, tres)):
        if "inst" not in r or "objval" not in r or "unsupported" in r or not max_hyp_py(r["inst"]):
            continue
        inst = r["inst"]
        h = inst["plan_ahead"] if inst["plan_ahead"] != -1 else max(t["deadline"] for t in inst["tasks"])
        if (h // inst["disc"]) + 1 > 9 or len(inst["tasks"]) > 3:
            continue
        pt = plan_text(inst, r)
        if pt is None:
            continue
        cases.append(("(%s, %s, %s)" % (T.g_inst(inst), gz(r["objval"]), pt), [1, 1, 1, 1, 1], i))
    ctx.cov["input_distribution"]["tiny_worlds_bruteforced"] = len(cases)
    if cases:
        try:
            mism = ctx.model_stream("S-brute", T.HEADER, "tinst * Z * plan",
                                    "(fun q => match q with (inst, v, p) => brute_check inst v p end)", cases, shard=3)
            for ci, mv in mism[:3]:
                i = cases[ci][2]
                ctx.violation("brute%d" % i, {"stream": "S-brute", "world": tiny[i], "placements": tres[i]["placements"],
                                              "solver_objective_scaled": tres[i]["objval"],
                                              "[hypotheses, solver<=optimum, within 10%, plan maximal, plan value = objective]": mv,
                                              "what": "the real solver's plan/objective differs from the brute-force optimum of PlanSpec over all "
                                                      "plans of this tiny instance"})
        except core.ModelEvalError as e:
            ctx.broken.append({"kind": "correspondence", "name": "S-brute", "detail": str(e)[-800:]})
    # ---- known findings: replay the witnesses on the implementation, report only if they still fail
    known = [("running", "F11-iii", "t10@g1",
              "a RUNNING task is charged its whole runtime from now: 1 CPU, A (3us) started at 0, now=2, B (1us, deadline 4) left "
              "unplaced by TetriSched-Gurobi and -CPLEX although it fits in [3,4) (tetrisched_gurobi_scheduler.py:129-141,426-439)"),
             ("partial_parents", "F14-join", "t01@g0",
              "whole-graph mode: join t00,t01 -> t02 with t00 COMPLETED: len(parent_tasks)=2 but only 1 parent has variables, so t02 can "
              "never be placed, and t01 (non-sink, no reward) is left unplaced too (tetrisched_gurobi_scheduler.py:862-933,1050-1053)"),
             ("unrewarded", "F14-nonsink", "t00@g0",
              "whole-graph mode: only sink tasks carry reward, so a non-sink task whose sink cannot be placed is left unplaced although "
              "it can be added (tetrisched_gurobi_scheduler.py:1050-1053)")]
    kw = [json.load(open(os.path.join(CORPUS, n + ".json"))) for n, _, _, _ in known]
    kcplex = json.loads(json.dumps(kw[0]))
    kcplex["cfg"]["flavour"] = "cplex"
    kres = T.run_worlds(kw + [kcplex])
    mon = []
    for (name, fid, task, what), w, r in zip(known + [known[0]], kw + [kcplex], kres):
        inst = r.get("inst")
        if not inst or r.get("placements") is None:
            mon.append(None)
            continue
        pt = plan_text(inst, r)
        idx = inst["names"].index(task)
        unplaced = any(p["task"] == task and not p["placed"] for p in r["placements"])
        mon.append(("(%s, %s, %s)" % (T.g_inst(inst), pt, gz(idx)), unplaced))
    try:
        cs = [m[0] for m in mon if m]
        # true = the task is (still) addable under the simulator's convention although the plan leaves it out
        bad = ctx.monitor_stream("M-known", T.HEADER, "tinst * plan * Z",
                                 "(fun q => match q with (inst, p, i) => match find_tt (ti_tasks inst) i with Some x => negb (addable_sim inst p x) | None => true end end)",
                                 cs)
        k = 0
        seen = set()
        for (name, fid, task, what), m in zip(known + [known[0]], mon):
            if not m:
                continue
            if k in bad and m[1] and fid not in seen:
                ctx.known(fid, what)
                seen.add(fid)
            k += 1
    except core.ModelEvalError as e:
        ctx.broken.append({"kind": "monitor", "name": "M-known", "detail": str(e)[-800:]})
    if ctx.broken:
        T.py_monitor_fallback(ctx, worlds, results, maximal=True)
