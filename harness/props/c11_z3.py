"""C11 (Z3 part) — DAG-aware planners order children after parents: every satisfying assignment of the
system Z3Scheduler asserts places a task only with its co-decided parents and not before parent.start +
parent.remaining.  Tie: the asserted rows of the running scheduler are compared one by one (as a multiset)
with gen_z3, `sat` is compared with z3's evaluation on candidate assignments, the returned placements with
`readback` of the solver's values; monitors run on feasible points of the live solver system (enumerated and
adversarially searched) and on the returned placements."""
import json
import os

import core
from core import gz, glist, gval
from props import c10_z3 as Z

FILES = Z.FILES
TRUSTED = Z.TRUSTED
EXPLANATION = ("C11 for the Z3 planner is proved for co-decided predecessors (C11_z3).  Its second clause "
               "(predecessors already running / scheduled) is refuted for Z3 (finding FZ3-C, lemma "
               "C11_z3_outside_parent_refuted): the scheduler adds rows only for parents that are themselves offered.")


def run(ctx):
    quick = ctx.tier == "quick"
    ctx.fingerprint(FILES)
    ctx.translate(["Z3"])
    ctx.build("C11_z3", deps=["Model/Z3Model.v"])   # the part's own statements, whatever property id runs it
    n = 80 if quick else 500
    specs = [Z.gen_spec(ctx.rng, ["dag", "mixed", "dag", "busy", "odd"][i % 5]) for i in range(n)]
    res = Z.run_specs(ctx, specs, n_models=5 if quick else 8, n_rand=8 if quick else 16)
    ctx.rules.append(Z.RULE + "; non-trivial = at least two offered tasks one of which is a co-decided parent of another, "
                              "or the call raises")
    dist = {"offered": {}, "errors": 0, "with_codecided_parent": 0, "outside_parent": 0, "busy_workers": 0,
            "adversarial_found": {}, "multi_parent": 0}
    gis = Z.tie_streams(ctx, specs, res, dist)
    seen = set()
    nontriv = 0
    mon, mon_where = [], []
    out_mon, out_where = [], []
    for i, (spec, r) in enumerate(zip(specs, res)):
        inst = r["instance"]
        key = json.dumps(inst, sort_keys=True)
        ids = {t["id"] for t in inst["tasks"]}
        has_par = any(p in ids for t in inst["tasks"] for p in t["parents"])
        if key not in seen:
            seen.add(key)
            if (len(inst["tasks"]) >= 2 and has_par) or r["error"]:
                nontriv += 1
        dist["offered"][len(inst["tasks"])] = dist["offered"].get(len(inst["tasks"]), 0) + 1
        dist["errors"] += bool(r["error"])
        dist["with_codecided_parent"] += has_par
        dist["multi_parent"] += any(len([p for p in t["parents"] if p in ids]) >= 2 for t in inst["tasks"])
        dist["outside_parent"] += Z.sig_outside_parent(inst)
        dist["busy_workers"] += any(a != t for w in inst["workers"] for _, t, a in w["res"])
        if i not in gis:
            continue
        gi = gis[i]
        # monitors: feasible points of the live system, adversarial points, the optimum, the returned placements
        points = Z.points_of(r) + [("returned", Z.placements_asg(r))]
        for k, a in r["adversarial"]:
            dist["adversarial_found"][k] = dist["adversarial_found"].get(k, 0) + 1
        outs = [[o[0], o[3]] for o in inst["outside_parents"] if o[2] in (3, 4) and o[3] is not None]
        for why, a in points:
            mon.append("(%s, %s)" % (gi, Z.g_asg(a)))
            mon_where.append((i, why, a))
            if outs:
                out_mon.append("(%s, %s)" % (Z.g_pairs(outs), Z.g_asg(a)))
                out_where.append((i, why, a))
    ctx.cov["distinct_nontrivial"] = nontriv
    ctx.cov["input_distribution"] = dist
    ctx.sample({"stream": "S-z3-rows", "spec": specs[0], "instance": res[0]["instance"],
                "rows": (res[0].get("formulas") or [])[:3]})

    # ---------------- monitors
    def pyfallback(inst, a):
        av = {tuple(c): v for c, v in a}
        byid = {t["id"]: t for t in inst["tasks"]}
        for t in inst["tasks"]:
            if not av.get((1, t["id"]), 0):
                continue
            for p in t["parents"]:
                if p in byid and not (av.get((1, p), 0) and av.get((0, t["id"]), 0) >= av.get((0, p), 0) + byid[p]["remaining"]):
                    return False
        return True
    try:
        bad = ctx.monitor_stream("S-z3-c11", Z.HEADER, "instance * list (var * Z)",
                                 "(fun p => c11_ok (fst p) (asg_of (snd p)))", mon, shard=150)
    except core.ModelEvalError as e:
        ctx.broken.append({"kind": "monitor", "name": "c11_ok", "detail": str(e)[-400:]})
        bad = [k for k, (i, why, a) in enumerate(mon_where) if not pyfallback(res[i]["instance"], a)]
    for b in bad[:3]:
        i, why, a = mon_where[b]
        ctx.violation("c11_%d" % b, {"stream": "S-z3-c11 monitor", "spec": specs[i], "instance": res[i]["instance"],
                                      "point": why, "assignment": a,
                                      "what": "a feasible point of the system asserted by Z3Scheduler (or the returned placement) "
                                              "places a task without a co-decided parent or before parent.start + parent.remaining"})
    # outside parents (FZ3-C): known finding, replayed from the corpus below
    try:
        obad = ctx.monitor_stream("S-z3-c11-outside", Z.HEADER, "list (Z * Z) * list (var * Z)",
                                  "(fun p => outside_ok (fst p) (asg_of (snd p)))", out_mon, shard=150) if out_mon else []
    except core.ModelEvalError as e:
        ctx.broken.append({"kind": "monitor", "name": "outside_ok", "detail": str(e)[-400:]})
        obad = []
    unexplained = [b for b in obad if not Z.sig_outside_parent(res[out_where[b][0]]["instance"])]
    for b in unexplained[:3]:
        i, why, a = out_where[b]
        ctx.violation("c11out_%d" % b, {"stream": "S-z3-c11-outside", "spec": specs[i], "point": why, "assignment": a})
    ctx.cov["input_distribution"]["outside_parent_points_failing"] = len(obad)
    replay_known(ctx)


def replay_known(ctx):
    """FZ3-C: replay the stored witness on the implementation and report it only if it still fails."""
    for fname, w in Z.load_corpus("C11_z3"):
        if w.get("finding") != "FZ3-C":
            continue
        r = core.run_impl("z3sched.py", {"cases": [w["spec"]], "seed": 0, "n_models": 1, "n_rand": 0})["cases"][0]
        inst = r["instance"]
        fails = False
        for o in inst["outside_parents"]:
            if o[2] in (3, 4):
                for p in r.get("placements") or []:
                    if p[0] == o[0] and p[2] and p[3] < o[3]:
                        fails = True
        if fails:
            ctx.known("FZ3-C", "Z3Scheduler places a task before the expected finish of a running/scheduled predecessor "
                               "that is not itself offered (%s)" % fname)
