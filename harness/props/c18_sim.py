"""C18, whole-simulation part: the frontier clauses monitored on every offer made during generated simulations."""
import json
import os

import core
import simcheck
import simcommon
import simmon

TRUSTED = simcheck.TRUSTED_SIM


def run(ctx):
    seen = []
    seen38 = []
    simcheck.run_sim_property(ctx, [], lambda r, w: simmon.mon_c18(r, w, seen, seen38),
                              "the frontier offered a final / scheduled / running task it must not offer, missed a released "
                              "task, or offered a task whose predecessors had not completed to a policy that does not plan ahead",
                              machine=False)
    ctx.cov.setdefault("input_distribution", {})["offers_matching_known_finding_F36"] = len(seen)
    ctx.cov["input_distribution"]["offers_matching_known_finding_F38"] = len(seen38)
    for k in core.load_known():
        if k.get("status") == "known" and k.get("property") == "C18" and k.get("id") in ("F36", "F38"):
            w = json.load(open(os.path.join(core.ROOT, k["witness"])))
            r = simcommon.run_worlds([w], jobs=1, chunk=1)[0]
            h36, h38 = [], []
            simmon.mon_c18(r, w, h36, h38)
            if (h36 if k["id"] == "F36" else h38):
                ctx.known(k["id"], k["what_fails"])
