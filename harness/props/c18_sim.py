"""C18, whole-simulation part: the frontier clauses monitored on every offer made during generated simulations."""
import json
import os

import core
import simcheck
import simcommon
import simmon

TRUSTED = simcheck.TRUSTED_SIM


def run(ctx):
    seen = []
    simcheck.run_sim_property(ctx, [], lambda r, w: simmon.mon_c18(r, w, seen),
                              "the frontier offered a final / scheduled / running task it must not offer, missed a released "
                              "task, or offered a task whose predecessors had not completed to a policy that does not plan ahead",
                              machine=False)
    ctx.cov.setdefault("input_distribution", {})["offers_matching_known_finding_F36"] = len(seen)
    for k in core.load_known():
        if k.get("status") == "known" and k.get("property") == "C18" and k.get("id") == "F36":
            w = json.load(open(os.path.join(core.ROOT, k["witness"])))
            r = simcommon.run_worlds([w], jobs=1, chunk=1)[0]
            hits = []
            simmon.mon_c18(r, w, hits)
            if hits:
                ctx.known("F36", k["what_fails"])
