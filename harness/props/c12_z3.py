"""C12 (Z3 part) — deadline enforcement in the Z3 planner: the deadline rows are soft in both modes; an
assignment that is optimal on the soft rows makes every task that can meet its deadline meet it, so under
enforce_deadlines a placed task misses its deadline only if it is hopeless (C12_z3_optimum).  Tie: the rows
handed to add_soft by the running scheduler are compared with soft_z3 (translated from source), the hard rows
with gen_z3; monitors run on the optimum z3 returns and on the returned placements; the order in which z3
treats its objectives (soft rows first) is checked against enumerated feasible points."""
import json

import core
from core import glist, gval
from props import c10_z3 as Z

FILES = Z.FILES
TRUSTED = Z.TRUSTED + [
    "z3.Optimize handles several objectives lexicographically in the order of declaration (default priority `lex`): "
    "the group of add_soft rows is declared before maximize(TASK_SLACK_SUM); C12_z3_optimum is about assignments that are "
    "optimal on the soft rows; the monitor S-z3-softopt compares the returned optimum with enumerated feasible points",
]
EXPLANATION = ("`enforce_deadlines -> every placed task completes by its deadline` is refuted for the Z3 planner (finding "
               "FZ3-E, C12_z3_placed_meets_deadline_refuted): a task that cannot meet its deadline at all is still placed.  "
               "Proved instead: C12_z3_optimum (soft-optimal => every non-hopeless task with a compatible worker meets its "
               "deadline) and C12_z3_enforce_not_in_feasible_set.")


def hopeless(inst, t):
    return t["deadline"] < max(inst["now"], t["release"]) + t["remaining"]


def sig_hopeless(inst):
    """FZ3-E: enforce_deadlines and an offered task with a compatible worker that cannot meet its deadline at all"""
    return inst["enforce"] and any(hopeless(inst, t) and Z._any_compatible(inst, t) for t in inst["tasks"])


def run(ctx):
    quick = ctx.tier == "quick"
    ctx.fingerprint(FILES)
    ctx.translate(["Z3"])
    ctx.build("C12_z3", deps=["Model/Z3Model.v"])   # the part's own statements, whatever property id runs it
    n = 60 if quick else 400
    specs = []
    for i in range(n):
        s = Z.gen_spec(ctx.rng, ["mixed", "dag", "single", "busy"][i % 4])
        s["opts"]["enforce"] = (i % 4 != 3)
        if i % 3 == 0:       # tight deadlines: contention decides who can meet them
            for g in s["graphs"]:
                for t in g["tasks"]:
                    t["deadline"] = s["now"] + ctx.rng.randint(0, 9)
        specs.append(s)
    res = Z.run_specs(ctx, specs, n_models=6 if quick else 10, n_rand=4 if quick else 8)
    ctx.rules.append(Z.RULE + "; three quarters with enforce_deadlines, one third with deadlines within 0-9us of now; "
                              "non-trivial = enforce_deadlines and at least one offered task whose deadline can be met only "
                              "at some start times (neither hopeless nor slack >= sum of all remaining times)")
    dist = {"offered": {}, "errors": 0, "enforce": 0, "hopeless_offered": 0, "soft_rows": 0, "optimum_unplaced_tasks": 0,
            "optimum_placed_tasks": 0}
    gis = Z.tie_streams(ctx, specs, res, dist)
    seen = set()
    nontriv = 0
    soft_cases = []
    opt_pts, opt_where = [], []
    so_cases, so_where = [], []
    for i, (spec, r) in enumerate(zip(specs, res)):
        inst = r["instance"]
        key = json.dumps(inst, sort_keys=True)
        total = sum(t["remaining"] for t in inst["tasks"])
        tightish = any((not hopeless(inst, t)) and t["deadline"] < max(inst["now"], t["release"]) + total
                       for t in inst["tasks"])
        if key not in seen:
            seen.add(key)
            nontriv += bool(inst["enforce"] and tightish and len(inst["tasks"]) >= 2)
        dist["offered"][len(inst["tasks"])] = dist["offered"].get(len(inst["tasks"]), 0) + 1
        dist["errors"] += bool(r["error"])
        dist["enforce"] += inst["enforce"]
        dist["hopeless_offered"] += sig_hopeless(inst)
        if i not in gis:
            continue
        if r.get("soft") is None:
            ctx.violation("softdump%d" % i, {"spec": spec, "what": "a soft row outside the modelled language: %s" % r.get("dump_error")})
            continue
        dist["soft_rows"] += len(r["soft"])
        soft_cases.append((gis[i], r["soft"], {"spec": spec}))
        if r.get("solver_model") is not None:
            for why, a in (("optimum", r["solver_model"]), ("returned", Z.placements_asg(r))):
                opt_pts.append("(%s, %s)" % (gis[i], Z.g_asg(a)))
                opt_where.append((i, why, a))
            for p in r["placements"]:
                dist["optimum_placed_tasks" if p[2] else "optimum_unplaced_tasks"] += 1
            others = [a for a in r["feasible"]]
            so_cases.append("(%s, (%s, %s))" % (gis[i], Z.g_asg(r["solver_model"]), glist([Z.g_asg(a) for a in others])))
            so_where.append(i)
    ctx.cov["distinct_nontrivial"] = nontriv
    ctx.cov["input_distribution"] = dist
    ctx.sample({"stream": "S-z3-soft", "spec": specs[0], "soft_rows": res[0].get("soft")})
    try:
        mism = ctx.model_stream("S-z3-soft", Z.HEADER, "instance", "obs_soft", soft_cases, shard=80)
        for idx, mv in mism[:3]:
            ctx.violation("soft%d" % idx, {"stream": "S-z3-soft", "case": soft_cases[idx][2],
                                            "expected_from_implementation": soft_cases[idx][1], "model": mv,
                                            "what": "the rows (and weights) handed to add_soft differ from soft_z3"})
    except core.ModelEvalError as e:
        ctx.broken.append({"kind": "correspondence", "name": "S-z3-soft", "detail": str(e)[-600:]})

    def monitor(name, in_type, fn, cases, wh, what, known_sig=None, only=None):
        idx = list(range(len(cases))) if only is None else sorted(only)
        if not idx:
            return []
        try:
            bad = ctx.monitor_stream(name, Z.HEADER, in_type, fn, [cases[k] for k in idx], shard=150)
        except core.ModelEvalError as e:
            ctx.broken.append({"kind": "monitor", "name": name, "detail": str(e)[-500:]})
            return []
        bad = [idx[b] for b in bad]
        if what is None:
            return bad
        nk = 0
        shown = 0
        for b in bad:
            i = wh[b][0] if isinstance(wh[b], tuple) else wh[b]
            if known_sig and known_sig(res[i]["instance"]):
                nk += 1
                continue
            if shown < 3:
                shown += 1
                rep = {"stream": name, "spec": specs[i], "instance": res[i]["instance"], "placements": res[i].get("placements"),
                       "what": what}
                if isinstance(wh[b], tuple):
                    rep["point"] = wh[b][1]
                ctx.violation("%s_%d" % (name.replace("-", ""), b), rep)
        dist[name + "_failing_under_known_signature"] = nk
        return bad

    # the strict form implies the exempting one: c12_ok is evaluated only where the strict form fails
    strict_bad = monitor("S-z3-c12-strict", "instance * list (var * Z)", "(fun p => c12_strict_ok (fst p) (asg_of (snd p)))",
                         opt_pts, opt_where, "under enforce_deadlines a placed task misses its deadline", known_sig=sig_hopeless)
    monitor("S-z3-c12", "instance * list (var * Z)", "(fun p => c12_ok (fst p) (asg_of (snd p)))", opt_pts, opt_where,
            "under enforce_deadlines the optimum returned by z3 places a task past its deadline although some admissible "
            "start time meets the deadline", only=strict_bad)
    monitor("S-z3-softopt", "instance * (list (var * Z) * list (list (var * Z)))",
            "(fun p => soft_opt_ok (fst p) (asg_of (fst (snd p))) (map asg_of (snd (snd p))))", so_cases, so_where,
            "a feasible point of the asserted system violates less soft-row weight than the optimum z3 returned")
    for fname, w in Z.load_corpus("C12_z3"):
        if w.get("finding") != "FZ3-E":
            continue
        r = core.run_impl("z3sched.py", {"cases": [w["spec"]], "seed": 0, "n_models": 1, "n_rand": 0})["cases"][0]
        inst = r["instance"]
        byid = {t["id"]: t for t in inst["tasks"]}
        late = [p for p in (r.get("placements") or []) if p[2] and p[3] + byid[p[0]]["remaining"] > byid[p[0]]["deadline"]]
        if inst["enforce"] and late:
            ctx.known("FZ3-E", "with enforce_deadlines=True Z3Scheduler places a task that cannot meet its deadline (%s)" % fname)
