"""C19 — workload and cluster descriptions are instantiated faithfully."""
import core
from core import glist


def gz(n):
    """Z literal; the generated case files open Z_scope, so no %Z annotation is needed (faster to parse)."""
    n = int(n)
    return "(%d)" % n if n < 0 else "%d" % n


FILES = ["workload/jobs.py", "workload/workload.py", "utils.py", "data/workload_loader.py", "data/worker_loader.py",
         "workload/graph.py", "workload/profile.py", "workload/strategy.py", "workload/resource.py"]
TRUSTED = [
    "translator py2v.py fragment Time (EventTime arithmetic used by the model is the translated one) and fragment Release "
    "(translator/frag_release.py: arguments of np.arange/np.linspace, draw counts, gamma seed, closed-loop counts and "
    "guards, task release times, clamp/rounding/interval of EventTime.fuzz; tied to the model by Proofs/ReleasePBridge.v); "
    "the rest of the hand-written model follows the source by differential correspondence only",
    "IEEE-754 binary64: modelled as exact dyadic rationals with round-to-nearest-even to 53 bits after every "
    "operation (Model/Release.v round53/fl_add/fl_mul/fl_div); overflow/inf/nan and -0.0 are outside the model; "
    "checked against CPython/numpy by the S-float stream, not proved against Flocq",
    "numpy.linspace for the FIXED policy is modelled by exact integers start + i*period (exact below 2^53; checked at "
    "the boundary by the stream, not proved); numpy.arange on int64 is modelled as Python range",
    "random draws are oracles: the arrays returned by numpy Generator.poisson/gamma and the value returned by "
    "random.Random.uniform are recorded on the implementation side and given to the model; theorems quantify over "
    "all draws satisfying the stated contract (non-negative inter-arrival values; uniform value inside the integer "
    "envelope of the requested interval)",
    "YAML/JSON parsing (PyYAML, json) is glue: covered by the S-loader correspondence stream only",
]
UN = ["U_US", "U_MS", "U_S"]
UF = [1, 1000, 10 ** 6]
PT = {"periodic": "PERIODIC", "fixed": "FIXED", "poisson": "POISSON", "gamma": "GAMMA", "closed_loop": "CLOSED_LOOP",
      "fixed_gamma": "FIXED_AND_GAMMA"}
HDR = "From Verif Require Import Gen.Src_Time Model.Release."


def g_et(p):
    return "(mkET %s %s)" % (gz(p[0]), UN[p[1]])


def g_fl(p):
    return "(mkF %s %s)" % (gz(p[0]), gz(p[1]))


def g_num(p):
    return "(mkF %s 0%%Z)" % gz(p[1]) if p[0] == "z" else g_fl(p[1])


def us(p):
    return p[0] * UF[p[1]]


INVALID = [-1, 0]
M1 = ["f", [-1, 0]]


def g_policy(p):
    k = p["type"]
    period = p.get("period", INVALID)
    n = p.get("n", -1)
    rate = p.get("rate", M1)
    coef = p.get("coef", M1)
    conc = p.get("conc", 0)
    base = p.get("base", ["z", 0])
    return "(mkPol %s %s %s %s %s %s %s %s)" % (PT[k], g_et(period), gz(n), g_num(rate), g_num(coef), gz(conc),
                                               g_et(p["start"]), g_num(base))


def rand_fl(rng, lo_e=-60, hi_e=20, signed=True):
    r = rng.random()
    if r < 0.1:
        return [0, 0]
    if r < 0.45:
        m = rng.randrange(1, 2 ** 53)
    elif r < 0.7:
        m = rng.randrange(1, 5000)
    elif r < 0.85:
        m = 2 ** 53 - 1 - rng.randrange(4)
    else:
        m = rng.choice([1, 3, 5, 2 ** 52, 2 ** 52 + 1])
    if signed and rng.random() < 0.3:
        m = -m
    return [m, rng.randint(lo_e, hi_e)]


def rate_num(rng):
    r = rng.random()
    if r < 0.06:
        return ["z", 0] if rng.random() < 0.5 else ["f", [0, 0]]
    if r < 0.12:
        return ["f", [-rng.randrange(1, 100), -rng.randrange(3, 12)]]
    if r < 0.2:
        return ["z", rng.randint(1, 3)]
    # m * 2^-k with k in 3..16: rates between ~1e-5 and a few units
    return ["f", [rng.randrange(1, 200), -rng.randrange(3, 17)]]


def gen_policy(rng, kind):
    def t(lo, hi):
        u = 0 if rng.random() < 0.7 else rng.randrange(3)
        return [rng.randint(lo, hi) // (UF[u] if rng.random() < 0.5 else 1), u]
    start = t(-50, 5000)
    if rng.random() < 0.2:
        start = [0, 0]
    n = rng.choice([-2, -1, 0, 1, 1, 2, 2, 3, 4, 5, 7, 12])
    p = {"type": kind, "start": start, "seed": rng.randrange(2 ** 31)}
    if kind == "periodic":
        p["period"] = t(-40, 900) if rng.random() < 0.9 else [0, rng.randrange(3)]
        if us(p["period"]) != 0:
            span = rng.randint(-3, 40) * us(p["period"]) + rng.randint(-3, 3)
        else:
            span = rng.randint(-10, 1000)
        comp = us(start) + span
        cu = rng.randrange(3) if rng.random() < 0.3 else 0
        # a coarser unit only when it is exact, so the horizon stays where intended
        completion = [comp // UF[cu], cu] if comp % UF[cu] == 0 else [comp, 0]
        return p, completion
    if kind == "fixed":
        p["period"] = t(-40, 900)
        p["n"] = n
        if rng.random() < 0.04:       # boundary of exactness of the float computation
            p["period"] = [2 ** 49, 0]
            p["n"] = rng.choice([3, 5, 7])
            p["start"] = [rng.randint(-5, 5), 0]
    elif kind == "poisson":
        p["rate"] = rate_num(rng)
        p["n"] = n
    elif kind == "gamma":
        p["rate"] = rate_num(rng)
        p["coef"] = rate_num(rng) if rng.random() < 0.3 else ["f", [rng.randrange(1, 64), -rng.randrange(0, 5)]]
        p["n"] = n
    elif kind == "fixed_gamma":
        p["rate"] = rate_num(rng)
        p["base"] = rate_num(rng)
        p["coef"] = ["f", [rng.randrange(1, 64), -rng.randrange(0, 5)]] if rng.random() < 0.9 else rate_num(rng)
        p["n"] = rng.choice([-1, 0, 1, 2, 3, 5, 8, 13, 20])
    elif kind == "closed_loop":
        p["conc"] = rng.choice([-1, 0, 1, 1, 2, 3, 5])
        p["n"] = n
    return p, [rng.randint(0, 10 ** 6), 0]


KINDS = ["periodic", "fixed", "poisson", "gamma", "closed_loop", "fixed_gamma"]


def g_rt_case(pol, completion, draws):
    zd, fd = [], []
    for c in draws:
        if c[0] == "poisson":
            zd = c[2]
        else:
            fd = c[2]
    return "(mkRT %s %s %s %s)" % (g_policy(pol), g_et(completion), glist([gz(x) for x in zd]),
                                   glist([g_fl(x) for x in fd]))


def gen_float_ops(rng, n):
    ops = []
    kinds = ["add", "ofz", "round", "lt", "fuzz"]
    for i in range(n):
        k = kinds[i % 5]
        if k == "add":
            a = rand_fl(rng)
            b = rand_fl(rng)
            if rng.random() < 0.5:       # comparable magnitudes: rounding and cancellation actually happen
                b = [b[0], a[1] + rng.randint(-60, 60)]
            ops.append([k, a, b])
        elif k == "ofz":
            r = rng.random()
            z = rng.randint(-10 ** 6, 10 ** 6) if r < 0.3 else rng.choice([-1, 1]) * (2 ** rng.randint(52, 70) + rng.randint(-3, 3)) \
                if r < 0.8 else rng.randrange(-2 ** 64, 2 ** 64)
            ops.append([k, z])
        elif k == "round":
            r = rng.random()
            if r < 0.5:                  # halves and near-halves
                ops.append([k, [2 * rng.randint(-2000, 2000) + 1, -1 - (rng.random() < 0.3)]])
            else:
                ops.append([k, rand_fl(rng, -56, 12)])
        elif k == "lt":
            a = rand_fl(rng)
            b = rand_fl(rng) if rng.random() < 0.6 else [a[0] * 2, a[1] - 1]
            if abs(b[0]) >= 2 ** 53:
                b = a
            ops.append([k, a, b])
        elif k == "fuzz":
            t = rng.choice([0, 1, 7, 100, 999, 12345, 10 ** 6, 2 ** 40 + 1, 2 ** 53 - 2, 2 ** 60 + 3])
            u = rand_fl(rng, -55, 8, signed=rng.random() < 0.2)
            if rng.random() < 0.4:       # ties: x.5
                u = [2 * rng.randint(0, 500) + 1, -1]
            lo = rng.choice([0, 0, 0, 3, 50, 1000])
            hi = rng.choice([2 ** 63 - 1, 2 ** 63 - 1, 10, 100, 5000, 2])
            ops.append([k, t, u, lo, hi])
    return ops


def g_fop(o):
    k = o[0]
    if k == "add":
        return "(FAdd %s %s)" % (g_fl(o[1]), g_fl(o[2]))
    if k == "ofz":
        return "(FOfZ %s)" % gz(o[1])
    if k == "round":
        return "(FRound %s)" % g_fl(o[1])
    if k == "lt":
        return "(FLt %s %s)" % (g_fl(o[1]), g_fl(o[2]))
    if k == "fuzz":
        return "(FFuzz %s %s %s %s)" % (gz(o[1]), g_fl(o[2]), gz(o[3]), gz(o[4]))
    raise ValueError(k)



# --------------------------------------------------------------------------
# S-instantiate: job graphs built through the JobGraph API
# --------------------------------------------------------------------------
JOBNAMES = ["A", "B", "C", "D", "E", "F", "G_", "H"]


def gen_inst_case(rng, quick=True):
    n = rng.choice([1, 2, 2, 3, 3, 4, 4, 5, 6])
    if rng.random() < 0.02:
        n = 0
    jobs = []
    for k in range(n):
        name = k if rng.random() < 0.97 else rng.randrange(n)
        r = rng.random()
        slo = None if r < 0.6 else ([-1, 0] if r < 0.65 else [rng.randint(0, 900), 0] if r < 0.95 else [rng.randint(0, 3), 1])
        r = rng.random()
        prob = ["z", 1] if r < 0.1 else ["f", [1, 0]] if r < 0.7 else ["f", [0, 0]] if r < 0.85 else ["f", [rng.randrange(1, 8), -3]]
        nr = rng.choice([1, 1, 1, 2, 2, 3]) if rng.random() < 0.97 else 0
        runtimes = []
        for _ in range(nr):
            u = 0 if rng.random() < 0.85 else 1
            runtimes.append([rng.choice([0, 1, 10, 50, 100, 100, 250, 999]) if u == 0 else rng.randint(0, 2), u])
        jobs.append({"name": name, "slo": slo, "cond": rng.random() < 0.15, "term": rng.random() < 0.15, "prob": prob,
                     "runtimes": runtimes})
    edges = []
    dens = rng.choice([0.2, 0.4, 0.7])
    for a in range(n):
        for b in range(a + 1, n):
            if rng.random() < dens:
                edges.append([a, b])
    rng.shuffle(edges)
    if n >= 2 and rng.random() < 0.03:       # a duplicate edge
        edges.append(list(rng.choice(edges)) if edges else [0, 1])
    if n >= 2 and rng.random() < 0.02:       # a cycle
        edges.append([n - 1, 0])
        edges.append([0, n - 1])
    kind = rng.choice(["fixed", "fixed", "fixed", "poisson", "gamma", "closed_loop", "periodic"])
    pol, comp = gen_policy(rng, kind)
    if kind in ("fixed", "poisson", "gamma", "closed_loop"):
        pol["n"] = rng.choice([0, 1, 2, 2, 3])
    if kind == "closed_loop":
        pol["conc"] = rng.choice([1, 2, 3])
    if kind == "periodic" and us(pol["period"]) != 0:
        comp = [us(pol["start"]) + rng.randint(0, 3) * us(pol["period"]) + 1, 0]
    r = rng.random()
    variance = None if r < 0.3 else [rng.choice([0, 0, 10, 20, 50]), rng.choice([0, 10, 20, 33, 60, 100])] if r < 0.9 \
        else [rng.randint(-50, 50), rng.randint(-50, 50)]
    flags = None
    if rng.random() < 0.6:
        flags = {"minv": rng.choice([0, 0, 5, 10]), "maxv": rng.choice([0, 20, 20, 50]),
                 "minb": rng.choice([0, 0, 0, 30, 500]), "maxb": rng.choice([2 ** 63 - 1, 2 ** 63 - 1, 40, 200, 5000, 10]),
                 "bpd": rng.random() < 0.3}
    return {"jobs": jobs, "edges": edges, "policy": pol, "variance": variance, "flags": flags, "completion": comp,
            "names": JOBNAMES}


def g_job(k, j):
    slo = INVALID if j["slo"] is None else j["slo"]
    return "(mkJob %s %s %s %s %s %s %s)" % (gz(k), gz(j["name"]), g_et(slo), core.gbool(j["cond"]), core.gbool(j["term"]),
                                            g_num(j["prob"]), glist([g_et(r) for r in j["runtimes"]]))


def g_iflags(f):
    if f is None:
        return "no_flags"
    return "(mkIF %s %s (%s, %s) %s)" % (gz(f["minb"]), gz(f["maxb"]), gz(f["minv"]), gz(f["maxv"]),
                                        core.gbool(bool(f.get("bpd"))))


def g_inst_case(c, r):
    zd, fd = [], []
    for d in r["draws"]:
        if d[0] == "poisson":
            zd = d[2]
        else:
            fd = d[2]
    var = "None" if c["variance"] is None else "(Some (%s, %s))" % (gz(c["variance"][0]), gz(c["variance"][1]))
    return "(mkIC %s %s %s %s %s %s %s %s %s)" % (
        glist([g_job(k, j) for k, j in enumerate(c["jobs"])]),
        glist(["(%s, %s)" % (gz(a), gz(b)) for a, b in c["edges"]]),
        g_policy(c["policy"]), var, g_iflags(c["flags"]), g_et(c["completion"]),
        glist([gz(x) for x in zd]), glist([g_fl(x) for x in fd]), glist([g_fl(x) for x in r["uniform"]]))


def gen_cl_case(rng):
    conc = rng.choice([1, 1, 2, 2, 3, 4, -1, 0])
    n = rng.choice([1, 2, 3, 4, 5, 7, 9, 0, -1])
    k = max(0, min(conc, n)) if n >= conc else max(0, n)
    live = list(range(k))
    nxt = k
    remaining = n - k
    notify = []
    contract = True
    for _ in range(rng.randint(0, 12)):
        r = rng.random()
        if live and r < 0.8:
            g = live.pop(rng.randrange(len(live)))
        elif r < 0.9:
            g = rng.randint(0, nxt + 1)          # maybe finished already, maybe unknown
            if g in live:
                live.remove(g)
            else:
                contract = False
        else:
            g = nxt + rng.randint(1, 3)
            contract = False
        notify.append(g)
        if g < nxt and remaining > 0:
            live.append(nxt)
            nxt += 1
            remaining -= 1
    return {"conc": conc, "n": n, "notify": notify, "start": rng.choice([0, 0, 5, 1000]), "contract": contract}



# --------------------------------------------------------------------------
# S-loader: generated description documents
# --------------------------------------------------------------------------
PNAMES = ["pA", "pB", "pC", "pD"]
GNAMES = ["gA", "gB", "gC"]
RNAMES = ["Slot", "GPU", "CPU"]
RIDS = ["r1", "r2", "x"]
WNAMES = ["w0", "w1", "w2", "w3", "w4", "w5"]
POLNAMES = ["periodic", "fixed", "poisson", "gamma", "closed_loop"]


def float_of(mexp):
    import math
    return math.ldexp(mexp[0], mexp[1])


def fl_of_float(x):
    x = float(x)
    if x == 0.0:
        return [0, 0]
    n, d = x.as_integer_ratio()
    return [n, -(d.bit_length() - 1)]


def gen_strategy(rng):
    st = {}
    if rng.random() < 0.9:
        req = {}
        for _ in range(rng.choice([1, 1, 1, 2, 3])):
            rid = "any" if rng.random() < 0.6 else rng.choice(RIDS)
            req["%s:%s" % (rng.choice(RNAMES), rid)] = rng.choice([1, 1, 2, 4])
        st["resource_requirements"] = req
    if rng.random() < 0.6:
        st["batch_size"] = rng.choice([1, 2, 4, 8])
    if rng.random() < 0.93:
        st["runtime"] = rng.choice([0, 1, 10, 50, 100, 100, 250, 999, 5000])
    return st


def gen_loader_case(rng, forced_policy=None):
    doc = {}
    profiles = []
    for k in range(rng.choice([1, 2, 2, 3, 4])):
        pr = {}
        if rng.random() < 0.993:
            pr["name"] = PNAMES[k] if rng.random() < 0.95 else rng.choice(PNAMES[:k + 1])
        r = rng.random()
        if r < 0.98:
            pr["execution_strategies"] = [gen_strategy(rng) for _ in range(rng.choice([1, 1, 2, 2, 3]))]
        if rng.random() < 0.3:
            pr["loading_strategies"] = [gen_strategy(rng) for _ in range(rng.choice([1, 2]))]
        profiles.append(pr)
    have = [p["name"] for p in profiles if "name" in p]
    graphs = []
    for gi in range(rng.choice([1, 1, 2, 2, 3])):
        g = {}
        if rng.random() < 0.993:
            g["name"] = GNAMES[gi] if rng.random() < 0.95 else rng.choice(GNAMES[:gi + 1])
        n = rng.choice([1, 2, 2, 3, 3, 4, 5])
        nodes = []
        for k in range(n):
            nd = {"name": JOBNAMES[k] if rng.random() < 0.985 else JOBNAMES[rng.randrange(n)]}
            if rng.random() < 0.99 and have:
                nd["work_profile"] = rng.choice(have) if rng.random() < 0.996 else "pD"
            if rng.random() < 0.3:
                nd["slo"] = rng.choice([0, 50, 200, 500, 1000])
            if rng.random() < 0.15:
                nd["conditional"] = rng.random() < 0.7
            if rng.random() < 0.25:
                nd["probability"] = rng.choice([1.0, 0.5, 0.25, 0.0, 1])
            if rng.random() < 0.12:
                nd["terminal"] = rng.random() < 0.7
            ch = [JOBNAMES[b] for b in range(k + 1, n) if rng.random() < 0.45]
            rng.shuffle(ch)
            if rng.random() < 0.004:
                ch.append("H")           # not present in the graph
            if ch or rng.random() < 0.2:
                nd["children"] = ch
            nodes.append(nd)
        if rng.random() < 0.993:
            g["graph"] = nodes
        pol = forced_policy or rng.choice(["fixed", "fixed", "fixed", "poisson", "gamma", "closed_loop", "closed_loop", "periodic"]
                                          if rng.random() < 0.985 else ["fixed_gamma", "bogus"])
        if rng.random() < 0.993:
            g["release_policy"] = pol
        if rng.random() < 0.7:
            g["start"] = rng.choice([0, 0, 5, 100, 1234, 10 ** 6])
        if pol in ("fixed", "periodic") and rng.random() < 0.97:
            g["period"] = rng.choice([0, 1, 10, 100, 333, 1000]) if pol == "fixed" else rng.choice([100, 333, 1000, 250, 100, 0])
        if pol == "periodic" and "start" in g:
            g["start"] = rng.choice([0, 5, 100])
        if pol in ("fixed", "poisson", "gamma", "closed_loop") and rng.random() < 0.97:
            g["invocations"] = rng.choice([0, 1, 2, 2, 3, 4]) if rng.random() < 0.3 else rng.choice([1, 2, 3])
        if pol in ("poisson", "gamma") and rng.random() < 0.97:
            g["rate"] = rng.choice([0.5, 0.05, 0.01, 0.125, 2.0, 1, 0.003])
        if pol == "gamma" and rng.random() < 0.97:
            g["coefficient"] = rng.choice([0.5, 1.0, 2.0, 4.0, 1, 0.3])
        if pol == "closed_loop" and rng.random() < 0.97:
            g["concurrency"] = rng.choice([1, 1, 2, 3, 2, 1, 2, 3, 4, 1, 0])
        if rng.random() < 0.6:
            g["deadline_variance"] = [rng.choice([0, 0, 10, 25]), rng.choice([0, 10, 50, 100, 33])]
        graphs.append(g)
    if rng.random() < 0.995:
        doc["profiles"] = profiles
    if rng.random() < 0.995:
        doc["graphs"] = graphs
    flags = None
    rf = None
    if rng.random() < 0.6:
        rf = {"rate": 0.0, "coef": 0.0, "period": 0, "inv": 0, "unique": False, "repl": 1, "slo": -1, "minb": 0,
              "maxb": 2 ** 63 - 1, "timeout": 2 ** 63 - 1, "bpd": rng.random() < 0.25}
        pers = [g for g in graphs if g.get("release_policy") == "periodic"]
        if pers:      # a finite horizon: a few periods after the latest start
            rf["timeout"] = max(g.get("start", 0) for g in pers) + \
                rng.randint(0, 3) * min([g["period"] for g in pers if g.get("period")] or [1]) + rng.randint(0, 2)
        if rng.random() < 0.2:
            rf["rate"] = rng.choice([0.25, 0.02, 1e-17])
        if rng.random() < 0.2:
            rf["coef"] = rng.choice([0.5, 3.0])
        if rng.random() < 0.25:
            rf["period"] = rng.choice([7, 250, -5])
        if rng.random() < 0.25:
            rf["inv"] = rng.choice([1, 3, 5, -2])
        if rng.random() < 0.3:
            rf["unique"] = True
        if rng.random() < 0.35:
            rf["repl"] = rng.choice([2, 3, 0])
        if rng.random() < 0.25:
            rf["slo"] = rng.choice([300, 2000, 0])
        if rng.random() < 0.3:
            rf["minb"] = rng.choice([20, 400])
        if rng.random() < 0.3:
            rf["maxb"] = rng.choice([30, 1000, 100000])
        flags = ["--override_poisson_arrival_rate=%r" % rf["rate"], "--override_gamma_coefficient=%r" % rf["coef"],
                 "--override_arrival_period=%d" % rf["period"], "--override_num_invocation=%d" % rf["inv"],
                 "--unique_work_profiles=%s" % ("true" if rf["unique"] else "false"),
                 "--replication_factor=%d" % rf["repl"], "--override_slo=%d" % rf["slo"],
                 "--min_deadline=%d" % rf["minb"], "--max_deadline=%d" % rf["maxb"], "--loop_timeout=%d" % rf["timeout"],
                 "--use_branch_predicated_deadlines=%s" % ("true" if rf["bpd"] else "false"),
                 "--random_seed=%d" % rng.randrange(2 ** 31)]
    return {"doc": doc, "fmt": rng.choice(["json", "yaml", "yaml"]), "flags": flags, "rf": rf, "names": JOBNAMES,
            "pnames": PNAMES, "gnames": GNAMES, "rnames": RNAMES, "rids": RIDS}


def g_o(x, f):
    return "None" if x is None else "(Some %s)" % f(x)


def g_res(key, q):
    name, rid = key.split(":")
    return "(%s, %s, %s)" % (gz(RNAMES.index(name)), gz(0 if rid == "any" else RIDS.index(rid) + 1), gz(q))


def g_dstrat(st):
    req = st.get("resource_requirements")
    return "(mkDS %s %s %s)" % (g_o(req, lambda r: glist([g_res(k, v) for k, v in r.items()])),
                                g_o(st.get("batch_size"), gz), g_o(st.get("runtime"), gz))


def g_dprofile(pr):
    return "(mkDP %s %s %s)" % (g_o(pr.get("name"), lambda n: gz(PNAMES.index(n))),
                                g_o(pr.get("loading_strategies"), lambda l: glist([g_dstrat(x) for x in l])),
                                g_o(pr.get("execution_strategies"), lambda l: glist([g_dstrat(x) for x in l])))


def g_dnode(nd):
    return "(mkDN %s %s %s %s %s %s %s)" % (
        gz(JOBNAMES.index(nd["name"])), g_o(nd.get("work_profile"), lambda n: gz(PNAMES.index(n))),
        g_o(nd.get("slo"), gz), core.gbool(bool(nd.get("conditional"))),
        g_o(nd.get("probability"), lambda x: g_fl(fl_of_float(x))), core.gbool(bool(nd.get("terminal"))),
        g_o(nd.get("children"), lambda l: glist([gz(JOBNAMES.index(c)) for c in l])))


def g_dgraph(g):
    pol = g.get("release_policy")
    code = None if pol is None else (POLNAMES.index(pol) if pol in POLNAMES else 9)
    var = g.get("deadline_variance")
    return "(mkDG %s %s %s %s %s %s %s %s %s %s)" % (
        g_o(g.get("name"), lambda n: gz(GNAMES.index(n))), g_o(g.get("graph"), lambda l: glist([g_dnode(x) for x in l])),
        g_o(code, gz), g_o(g.get("start"), gz), g_o(g.get("period"), gz), g_o(g.get("invocations"), gz),
        g_o(g.get("concurrency"), gz), g_o(g.get("rate"), lambda x: g_fl(fl_of_float(x))),
        g_o(g.get("coefficient"), lambda x: g_fl(fl_of_float(x))),
        g_o(var, lambda v: "(%s, %s)" % (gz(v[0]), gz(v[1]))))


def g_rflags(rf):
    if rf is None:
        return "None"
    return "(Some (mkRF %s %s %s %s %s %s %s %s %s %s %s))" % (
        g_fl(fl_of_float(rf["rate"])), g_fl(fl_of_float(rf["coef"])), gz(rf["period"]), gz(rf["inv"]),
        core.gbool(rf["unique"]), gz(rf["repl"]), gz(rf["slo"]), gz(rf["minb"]), gz(rf["maxb"]),
        gz(rf.get("timeout", 2 ** 63 - 1)), core.gbool(bool(rf.get("bpd"))))


def g_load_case(c, r):
    zc = [d[2] for d in r["draws"] if d[0] == "poisson"]
    fc = [d[2] for d in r["draws"] if d[0] == "gamma"]
    doc = c["doc"]
    return "(mkLC %s %s %s %s %s %s)" % (
        g_o(doc.get("profiles"), lambda l: glist([g_dprofile(x) for x in l])),
        g_o(doc.get("graphs"), lambda l: glist([g_dgraph(x) for x in l])), g_rflags(c["rf"]),
        glist([glist([gz(x) for x in a]) for a in zc]), glist([glist([g_fl(x) for x in a]) for a in fc]),
        glist([g_fl(x) for x in r["uniform"]]))


def gen_worker_case(rng):
    pools = []
    wi = 0
    for pi in range(rng.choice([1, 1, 2, 3])):
        ws = []
        for _ in range(rng.choice([1, 2, 2, 3])):
            res = []
            for _ in range(rng.choice([1, 2, 2, 3, 4])):
                r = rng.random()
                nm = rng.choice(RNAMES)
                full = nm if r < 0.25 else "%s:any" % nm if r < 0.55 else "%s:%s" % (nm, rng.choice(RIDS)) if r < 0.985 \
                    else "%s:%s:%s" % (nm, "x", "x")
                res.append({"name": full, "quantity": rng.choice([1, 2, 4, 8, 0])})
            ws.append({"name": WNAMES[wi % len(WNAMES)], "resources": res})
            wi += 1
        pools.append({"name": PNAMES[pi], "workers": ws})
    return {"doc": pools, "fmt": rng.choice(["json", "yaml"]), "pnames": PNAMES, "wnames": WNAMES, "rnames": RNAMES,
            "rids": RIDS}


def g_pools(doc):
    def rs(r):
        parts = r["name"].split(":")
        code = -2 if len(parts) > 2 else -1 if len(parts) == 1 else 0 if parts[1] == "any" else RIDS.index(parts[1]) + 1
        return "(%s, %s, %s)" % (gz(RNAMES.index(parts[0])), gz(code), gz(r["quantity"]))
    return glist(["(%s, %s)" % (gz(PNAMES.index(p["name"])),
                                glist(["(%s, %s)" % (gz(WNAMES.index(w["name"])), glist([rs(r) for r in w["resources"]]))
                                       for w in p["workers"]])) for p in doc])


def is_periodic_finding(c):
    """documents outside the stream: a periodic graph loaded WITHOUT a flags object (the horizon is then
    EventTime(sys.maxsize): numpy.arange over 2^63 us -> MemoryError; a usage limit, the model cannot enumerate it either)"""
    return c["flags"] is None and any(g.get("release_policy") == "periodic" for g in c["doc"].get("graphs", []))


class Deferred:
    """Streams and monitors are independent coqc runs: they are registered with a handler for their result, evaluated
    together in a thread pool, and the handlers (which record violations) run afterwards in registration order, so
    the verdict and the evidence do not depend on scheduling."""

    def __init__(self, ctx):
        self.ctx = ctx
        self.jobs = []

    def add(self, name, thunk, handler):
        self.jobs.append((name, thunk, handler))

    def run(self):
        from concurrent.futures import ThreadPoolExecutor
        with ThreadPoolExecutor(max_workers=8) as ex:
            futs = [ex.submit(t) for _, t, _ in self.jobs]
        for (name, _, handler), f in zip(self.jobs, futs):
            try:
                handler(f.result())
            except core.ModelEvalError as e:
                self.ctx.broken.append({"kind": "correspondence", "name": name, "detail": str(e)[-600:]})
        st = self.ctx.cov["streams"]
        n = sum(v["cases"] for k, v in st.items() if not k.endswith(":monitor"))
        self.ctx.cov["evaluations"] = n
        self.ctx.cov["traces_validated_against_impl"] = n


def run(ctx):
    import time
    from concurrent.futures import ThreadPoolExecutor
    t0 = time.time()
    phases = ctx.cov.setdefault("phase_seconds", {})

    def mark(name):
        phases[name] = round(time.time() - t0, 1)
    ctx.fingerprint(FILES)
    ctx.translate(["Time", "Release"])
    ctx.build("C19", deps=["Model/Release.v"])
    mark("build")
    quick = ctx.tier == "quick"
    rng = ctx.rng
    n_rt = 720 if quick else 12000
    n_fl = 600 if quick else 10000
    n_inst = 400 if quick else 7000
    n_cl = 250 if quick else 4000
    n_ld = 300 if quick else 5000
    n_wl = 100 if quick else 1500

    # ---------------- generation (the only consumer of ctx.rng), then the real classes, four adapters side by side
    rt_cases = []
    for i in range(n_rt):
        kind = KINDS[i % len(KINDS)]
        pol, comp = gen_policy(rng, kind)
        rt_cases.append({"policy": pol, "completion": comp})
    fops = gen_float_ops(rng, n_fl)
    inst_cases = [gen_inst_case(rng) for _ in range(n_inst)]
    cl_cases = [gen_cl_case(rng) for _ in range(n_cl)]
    ld_cases = []
    while len(ld_cases) < n_ld:
        c = gen_loader_case(rng)
        if not is_periodic_finding(c):
            ld_cases.append(c)
    wl_cases = [gen_worker_case(rng) for _ in range(n_wl)]
    corpus_files, corpus_payload = corpus_payloads()
    with ThreadPoolExecutor(max_workers=4) as ex:
        f1 = ex.submit(core.run_impl, "release.py", {"release_times": rt_cases, "float_ops": fops})
        f2 = ex.submit(core.run_impl, "release.py", {"instantiate": inst_cases, "closed_loop": cl_cases})
        f3 = ex.submit(core.run_impl, "release.py", {"loader": ld_cases, "worker_loader": wl_cases})
        f4 = ex.submit(core.run_impl, "release.py", corpus_payload)
    impl, impl2, impl3, impl4 = f1.result(), f2.result(), f3.result(), f4.result()
    mark("implementation")
    D = Deferred(ctx)

    # ---------------- S-float
    ctx.rules.append("S-float: binary64 +, int->float, round(), <, EventTime.fuzz(forced draw) on generated doubles with "
                     "full 53-bit mantissas, ties, cancellation, 2^53 boundaries; distinct = distinct (op, operands); "
                     "non-trivial = the exact result is not representable (rounding happens) or is a tie")

    def h_float(mism):
        for idx, mv in mism[:3]:
            ctx.violation("float%d" % idx, {"stream": "S-float", "case": fops[idx], "implementation": impl["float_ops"][idx],
                                             "model": mv,
                                             "what": ("EventTime.fuzz(forced draw) is not round(time + max(min_bound, min(max_bound, draw)))"
                                                      if fops[idx][0] == "fuzz" else "binary64 model disagrees with CPython")})
    fl_cases = [(g_fop(o), r, o) for o, r in zip(fops, impl["float_ops"])]
    D.add("S-float", lambda: ctx.model_stream("S-float", HDR, "fop", "f_observe", fl_cases, shard=200), h_float)
    ctx.cov["distinct_nontrivial"] += len({repr(o) for o in fops if o[0] in ("add", "round", "fuzz")})

    # ---------------- S-release-times
    ctx.rules.append("S-release-times: ReleasePolicy.get_release_times for all six policy types; start/period/horizon in "
                     "us/ms/s incl. negative and zero, N in -2..12, rates/coefficients incl. 0, negative and integers; the "
                     "numpy draws recorded by a wrapper around policy._rng are the model's oracle; distinct = distinct "
                     "(policy, horizon); non-trivial = at least 2 releases or an error result")
    seen = set()
    nt = 0
    dist = {}
    errs = 0
    for c, r in zip(rt_cases, impl["release_times"]):
        key = repr((sorted((k, v) for k, v in c["policy"].items() if k != "seed"), c["completion"]))
        k = c["policy"]["type"]
        dist[k] = dist.get(k, 0) + 1
        if key in seen:
            continue
        seen.add(key)
        if r["res"][0] == 1:
            errs += 1
            nt += 1
        elif len(r["res"][1]) >= 2:
            nt += 1
    ctx.cov["distinct_nontrivial"] += nt
    ctx.cov["input_distribution"] = {"release_policy_cases": dist, "release_policy_errors": errs}
    ctx.sample({"stream": "S-release-times", "case": rt_cases[2], "impl": impl["release_times"][2]})

    def h_rt(mism):
        for idx, mv in mism[:3]:
            ctx.violation("rt%d" % idx, {"stream": "S-release-times", "case": rt_cases[idx],
                                          "implementation": impl["release_times"][idx], "model": mv,
                                          "what": "release times differ from the model of get_release_times"})
    rtc = [(g_rt_case(c["policy"], c["completion"], r["draws"]), r["res"], c) for c, r in zip(rt_cases, impl["release_times"])]
    D.add("S-release-times", lambda: ctx.model_stream("S-release-times", HDR, "rt_case", "rt_observe", rtc, shard=180), h_rt)
    # the parameters the policy hands to numpy (1/rate; 1/coef, coef/rate)
    rq_cases = []
    rq_keep = []
    for c, r in zip(rt_cases, impl["release_times"]):
        if r["draws"]:
            d = r["draws"][0]
            exp = [0, d[3][0]] if d[0] == "poisson" else [0, d[3]]
            rq_cases.append((g_policy(c["policy"]), exp, c))
            rq_keep.append((c, r))

    def h_rq(mism):
        for idx, mv in mism[:3]:
            ctx.violation("rngreq%d" % idx, {"stream": "S-rng-request", "case": rq_keep[idx][0],
                                              "implementation": rq_keep[idx][1]["draws"][0][3],
                                              "model": mv, "what": "distribution parameters requested from numpy differ from "
                                                                   "(1/rate) / (1/coefficient, coefficient/rate)"})
    D.add("S-rng-request", lambda: ctx.model_stream("S-rng-request", HDR, "policy", "rng_request", rq_cases), h_rq)

    # ---------------- S-instantiate, S-closed-loop
    ctx.rules.append("S-instantiate: JobGraph built with add_job/add_child (1-6 jobs, random DAG edges in shuffled order, "
                     "rare duplicate names/edges/cycles/strategy-less jobs/empty graphs), every policy, variance None or a pair "
                     "(incl. reversed and negative), flags None or (min/max deadline, default variance, "
                     "use_branch_predicated_deadlines); "
                     "JobGraph.generate_task_graphs compared field by field (task names, release, deadline, probability, "
                     "children order, freshness of ids) with the recorded numpy and uniform draws as oracle; distinct = "
                     "distinct case; non-trivial = >= 2 jobs with an edge and >= 1 task graph, or an error")
    nt = 0
    shapes = {"ok_graphs": 0, "errors": 0, "with_edges": 0, "branch_predicated": 0}
    for c, r in zip(inst_cases, impl2["instantiate"]):
        shapes["branch_predicated"] += bool(c["flags"] and c["flags"].get("bpd"))
        if r["res"][0] == 1:
            shapes["errors"] += 1
            nt += 1
        else:
            shapes["ok_graphs"] += len(r["res"][1][0])
            if c["edges"] and r["res"][1][0]:
                nt += 1
                shapes["with_edges"] += 1
    ctx.cov["distinct_nontrivial"] += nt
    ctx.cov["input_distribution"]["instantiate"] = shapes
    ctx.sample({"stream": "S-instantiate", "case": inst_cases[0], "impl": impl2["instantiate"][0]})

    def h_inst(mism):
        for idx, mv in mism[:3]:
            ctx.violation("inst%d" % idx, {"stream": "S-instantiate", "case": inst_cases[idx],
                                            "implementation": impl2["instantiate"][idx], "model [task graphs, completion time]": mv,
                                            "what": "generated task graphs / JobGraph.completion_time differ from the model's "
                                                    "instantiation"})
    ic = [(g_inst_case(c, r), [r["res"], r["ct"]], c) for c, r in zip(inst_cases, impl2["instantiate"])]
    D.add("S-instantiate", lambda: ctx.model_stream("S-instantiate", HDR, "inst_case",
                                                    "(fun c => L [inst_observe c; ct_observe c])", ic, shard=40), h_inst)
    # the interval requested from random.uniform: completion_time*|variance|/100.0 (with branch-predicated deadlines
    # only the first request of a graph is made with the completion time)
    uq_cases = []
    uq_keep = []
    for c, r in zip(inst_cases, impl2["instantiate"]):
        if r["ct"][0] != 0 or not r["ct"][1] or not r.get("uniform_args"):
            continue
        var = c["variance"] if c["variance"] is not None else \
            ([c["flags"]["minv"], c["flags"]["maxv"]] if c["flags"] is not None else [0, 0])
        bpd = bool(c["flags"] and c["flags"].get("bpd"))
        for a in r["uniform_args"][:(1 if bpd else 2)]:
            uq_cases.append(("(%s, %s, %s)" % (gz(r["ct"][1][0]), gz(var[0]), gz(var[1])), [0, a], c))
            uq_keep.append((c, a))

    def h_uq(mism):
        for idx, mv in mism[:3]:
            ctx.violation("unireq%d" % idx, {"stream": "S-uniform-request", "case": uq_keep[idx][0], "implementation": uq_keep[idx][1],
                                              "model": mv, "what": "the interval requested from random.uniform is not "
                                                                   "[completion_time*|min_variance|/100, completion_time*|max_variance|/100]"})
    D.add("S-uniform-request", lambda: ctx.model_stream("S-uniform-request", HDR, "Z * Z * Z", "uniform_request", uq_cases), h_uq)

    ctx.rules.append("S-closed-loop: Workload.notify_task_graph_completion driven with generated notification sequences "
                     "(in-flight graphs, already finished graphs, unknown graphs) on closed-loop job graphs with "
                     "concurrency/N in -1..9; released graph, remaining count and errors compared per call; "
                     "non-trivial = at least one re-release")
    nt = 0
    for c, r in zip(cl_cases, impl2["closed_loop"]):
        if any(s[0] == 0 and s[1] for s in r["steps"]):
            nt += 1
    ctx.cov["distinct_nontrivial"] += nt
    clc = []
    cl_keep = []
    for c, r in zip(cl_cases, impl2["closed_loop"]):
        if r["init"][0] == 1:
            continue                  # constructor refused (conc == 0 or n == 0): nothing to drive
        cl_keep.append((c, r))
        exp = [[s[0], ([s[1][0]] if s[1] else []), s[2]] if s[0] == 0 else [1, s[1]] for s in r["steps"]]
        clc.append(("(%s, %s, %s)" % (gz(c["conc"]), gz(c["n"]), glist([gz(g) for g in c["notify"]])), exp, c))

    def h_cl(mism):
        for idx, mv in mism[:3]:
            ctx.violation("cl%d" % idx, {"stream": "S-closed-loop", "case": cl_keep[idx][0], "implementation": cl_keep[idx][1],
                                          "model": mv, "what": "closed-loop re-release differs from the bookkeeping machine"})
        for c, r in cl_keep:
            bad = [s for s in r["steps"] if s[0] == 0 and (len(s[1]) > 1 or s[3] != 1)]
            if bad:
                ctx.violation("cltime", {"stream": "S-closed-loop", "case": c, "implementation": r,
                                         "what": "a re-released graph does not start at completion + 1us at its sources"})
                break
    D.add("S-closed-loop", lambda: ctx.model_stream("S-closed-loop", HDR, "Z * Z * list Z", "cl_observe", clc), h_cl)

    # ---------------- S-loader, S-worker-loader
    ctx.rules.append("S-loader: generated YAML/JSON workload documents (1-4 profiles with 1-3 execution/loading strategies, "
                     "typed 'any' and specific resource ids, 1-3 graphs of 1-5 nodes with slo/conditional/probability/terminal/"
                     "children, every release policy and parameter, deadline_variance, missing keys, duplicate names, unknown "
                     "profiles/children/policies) loaded by the real WorkloadLoader with and without absl flags "
                     "(--override_*, --replication_factor, --unique_work_profiles, --override_slo, --min/max_deadline, "
                     "--loop_timeout, --use_branch_predicated_deadlines); "
                     "job graphs, policies, profiles, strategies, resources and all generated task graphs compared field by "
                     "field; distinct = distinct (document, flags); non-trivial = loads successfully with >= 1 task graph "
                     "of >= 2 tasks, or is rejected")
    nt = 0
    ld_dist = {"ok": 0, "errors": 0, "with_flags": 0, "replicated": 0, "task_graphs": 0, "branch_predicated": 0}
    for c, r in zip(ld_cases, impl3["loader"]):
        ld_dist["with_flags"] += c["flags"] is not None
        ld_dist["replicated"] += bool(c["rf"] and c["rf"]["repl"] > 1)
        ld_dist["branch_predicated"] += bool(c["rf"] and c["rf"].get("bpd"))
        if r["res"][0] == 1:
            ld_dist["errors"] += 1
            nt += 1
        else:
            ld_dist["ok"] += 1
            ntg = sum(len(x[2][0]) for x in r["res"][1][1])
            ld_dist["task_graphs"] += ntg
            if any(len(tg[1]) >= 2 for x in r["res"][1][1] for tg in x[2][0]):
                nt += 1
    ctx.cov["distinct_nontrivial"] += nt + len({repr(c["doc"]) for c in wl_cases})
    ctx.cov["input_distribution"]["loader"] = ld_dist
    ctx.sample({"stream": "S-loader", "doc": ld_cases[1]["doc"], "flags": ld_cases[1]["flags"]})

    def h_ld(mism):
        for idx, mv in mism[:3]:
            ctx.violation("load%d" % idx, {"stream": "S-loader", "document": ld_cases[idx]["doc"], "format": ld_cases[idx]["fmt"],
                                            "flags": ld_cases[idx]["flags"], "implementation": impl3["loader"][idx],
                                            "model": mv,
                                            "what": "objects built by WorkloadLoader differ from the description"})
    ldc = [(g_load_case(c, r), r["res"], c) for c, r in zip(ld_cases, impl3["loader"])]
    D.add("S-loader", lambda: ctx.model_stream("S-loader", HDR, "load_case", "load_observe", ldc, shard=30), h_ld)

    def h_wl(mism):
        for idx, mv in mism[:3]:
            ctx.violation("pools%d" % idx, {"stream": "S-worker-loader", "document": wl_cases[idx]["doc"],
                                             "implementation": impl3["worker_loader"][idx], "model": mv,
                                             "what": "worker pools built by WorkerLoader differ from the description"})
    wlc = [(g_pools(c["doc"]), r["res"], c) for c, r in zip(wl_cases, impl3["worker_loader"])]
    D.add("S-worker-loader", lambda: ctx.model_stream("S-worker-loader", HDR, "list d_pool", "pools_observe", wlc), h_wl)

    # ---------------- monitors on the implementation's own observations
    run_monitors(ctx, D, rt_cases, impl["release_times"], inst_cases, impl2["instantiate"], cl_cases, impl2["closed_loop"])
    # ---------------- bridge between the translated source fragments and the model
    D.run()
    mark("streams+monitors")
    # ---------------- corpus: regression cases of fixed defects, replay of the open finding
    run_corpus(ctx, corpus_files, impl4)
    mark("corpus")


def num_sign(p):
    v = p[1] if p[0] == "z" else p[1][0]
    return (v > 0) - (v < 0)


def run_monitors(ctx, D, rt_cases, rt_impl, inst_cases, inst_impl, cl_cases, cl_impl):
    ctx.rules.append("monitors (Gallina booleans proved equivalent to the statements, Proofs/ReleaseP5.v, applied to what the "
                     "implementation produced): fixed/periodic instants equal the declared ones; poisson/gamma/fixed+gamma give N "
                     "non-decreasing instants from the start; closed-loop event logs keep in-flight <= concurrency and "
                     "released <= N; TaskGraph.deadline - release within the clamped integer envelope of "
                     "completion_time*(1+variance/100); each task graph has the job graph's named nodes and children lists "
                     "and fresh task objects")
    mons = {"fixed": [], "periodic": [], "arrivals": [], "deadline": [], "iso": [], "cl": []}
    where = {k: [] for k in mons}
    for i, (c, r) in enumerate(zip(rt_cases, rt_impl)):
        pol = c["policy"]
        if r["res"][0] != 0:
            continue
        obs = [t * UF[u] for t, u in r["res"][1]]
        k = pol["type"]
        if k == "fixed" and pol["n"] >= 0:
            mons["fixed"].append("(%s, %s, %s, %s)" % (gz(us(pol["start"])), gz(us(pol["period"])), gz(pol["n"]),
                                                        glist([gz(x) for x in obs])))
            where["fixed"].append(c)
        elif k == "periodic" and us(pol["period"]) != 0:
            mons["periodic"].append("(%s, %s, %s, %s)" % (gz(us(pol["start"])), gz(us(pol["period"])), gz(us(c["completion"])),
                                                           glist([gz(x) for x in obs])))
            where["periodic"].append(c)
        elif k in ("poisson", "gamma", "fixed_gamma") and pol["n"] > 0 and \
                (k != "fixed_gamma" or (num_sign(pol["base"]) >= 0 and num_sign(pol["rate"]) > 0)):
            mons["arrivals"].append("(%s, %s, %s)" % (gz(us(pol["start"])), gz(pol["n"]), glist([gz(x) for x in obs])))
            where["arrivals"].append(c)
    for c, r in zip(inst_cases, inst_impl):
        if r["res"][0] != 0 or r["ct"][0] != 0 or not r["ct"][1]:
            continue
        bpd = bool(c["flags"] and c["flags"].get("bpd"))
        ct = r["ct"][1][0] * UF[r["ct"][1][1]]
        var = c["variance"] if c["variance"] is not None else \
            ([c["flags"]["minv"], c["flags"]["maxv"]] if c["flags"] is not None else [0, 0])
        minb, maxb = (c["flags"]["minb"], c["flags"]["maxb"]) if c["flags"] is not None else (0, 2 ** 63 - 1)
        names = [j["name"] for j in c["jobs"]]
        dag = all(a < b for a, b in c["edges"]) and len({tuple(e) for e in c["edges"]}) == len(c["edges"])
        if len(set(names)) == len(names) and dag:     # precondition of the property: job names identify the jobs, the graph is a DAG
            for rel, dl in ([] if bpd else r["tg_meta"]):      # (with bpd the base is not JobGraph.completion_time)
                mons["deadline"].append("(%s, %s, %s, %s, %s, %s)" % (gz(ct), gz(var[0]), gz(var[1]), gz(minb), gz(maxb), gz(dl - rel)))
                where["deadline"].append(c)
            jobs = glist(["(%s, %s)" % (gz(j["name"]), glist([gz(c["jobs"][b]["name"]) for a, b in c["edges"] if a == k]))
                          for k, j in enumerate(c["jobs"])])
            for tg in r["res"][1][0]:
                tasks = glist(["(%s, %s)" % (gz(t[0]), glist([gz(x) for x in t[4]])) for t in tg[1]])
                mons["iso"].append("(%s, %s)" % (jobs, tasks))
                where["iso"].append(c)
            if r["res"][1][1] != 1:
                ctx.violation("fresh", {"stream": "monitor", "case": c, "what": "task objects are shared between invocations "
                                        "(task ids are not pairwise distinct)"})
    for c, r in zip(cl_cases, cl_impl):
        if r["init"][0] != 0 or c["conc"] <= 0 or c["n"] <= 0:
            continue
        live = set(r["init"][1])
        log = ["true"] * len(r["init"][1])
        ok = True
        for g, st in zip(c["notify"], r["steps"]):
            if g not in live or st[0] != 0:
                ok = False               # the caller's contract (one notification per in-flight graph) is not met
                break
            live.discard(g)
            log.append("false")
            for x in st[1]:
                live.add(x)
                log.append("true")
        if ok:
            mons["cl"].append("(%s, %s, %s)" % (gz(c["conc"]), gz(c["n"]), glist(log)))
            where["cl"].append(c)
    specs = [
        ("fixed", "Z * Z * Z * list Z", "(fun c => let '(s, p, n, o) := c in mon_fixed s p n o)",
         "FIXED release instants are not start + i*period for i < N"),
        ("periodic", "Z * Z * Z * list Z", "(fun c => let '(s, p, h, o) := c in mon_periodic s p h o)",
         "PERIODIC release instants are not every period from the start until the horizon"),
        ("arrivals", "Z * Z * list Z", "(fun c => let '(s, n, o) := c in mon_arrivals s n o)",
         "POISSON/GAMMA release instants are not N non-decreasing instants beginning at the start"),
        ("deadline", "Z * Z * Z * Z * Z * Z", "(fun c => let '(ct, a, b, lo, hi, st) := c in mon_deadline ct a b lo hi st)",
         "TaskGraph.deadline - release is outside completion_time stretched by the declared variance and clamped to the bounds"),
        ("iso", "nadj * nadj", "(fun c => mon_iso (fst c) (snd c))",
         "an instantiated task graph is not a copy of the job graph (nodes / children differ)"),
        ("cl", "Z * Z * list bool", "(fun c => let '(k, n, l) := c in mon_closed_loop k n 0 0 l)",
         "closed loop: more than `concurrency` graphs in flight or more than N released"),
    ]
    for key, ty, fn, what in specs:
        if not mons[key]:
            continue

        def handler(bad, key=key, what=what):
            for b in bad[:2]:
                ctx.violation("mon_%s%d" % (key, b), {"stream": "monitor M-" + key, "case": where[key][b],
                                                      "observation": mons[key][b], "what": what})
        D.add("M-" + key, lambda key=key, ty=ty, fn=fn: ctx.monitor_stream("M-" + key, HDR, ty, fn, mons[key]), handler)


def corpus_payloads():
    import glob
    import json
    import os
    cdir = os.path.join(core.ROOT, "corpus", "C19")
    files = {os.path.basename(f): json.load(open(f)) for f in sorted(glob.glob(os.path.join(cdir, "*.json")))}
    payload = {
        "loader": [files["F12b_sticky_slo.json"]["case"], files["F7b_seeded_rng.json"]["case"],
                   files["F7b_seeded_rng.json"]["case"], files["periodic_loader.json"]["case"]],
        "release_times": [files["gamma_start_unit.json"]["case"]],
        "instantiate": [files["branch_predicated_deadlines.json"]["case"]],
        "closed_loop": [{"conc": 1, "n": 3, "notify": [0, 0]}]}
    return files, payload


def run_corpus(ctx, files, r):
    f12b = files["F12b_sticky_slo.json"]
    f7b = files["F7b_seeded_rng.json"]
    per = files["periodic_loader.json"]
    gam = files["gamma_start_unit.json"]
    bpd = files["branch_predicated_deadlines.json"]
    # --- regression cases of defects that were fixed in /repo: must hold
    res = r["loader"][0]["res"]
    ok = res[0] == 0 and res[1][0][0][4][1][1] == f12b["expect"]["slo_of_B"] and \
        res[1][1][0][2][0][0][1][0][2] == [f12b["expect"]["deadline_us"], 0]
    if not ok:
        ctx.violation("F12b", {"stream": "corpus", "document": f12b["case"]["doc"], "implementation": res,
                               "what": "regression of F12b: " + f12b["what"]})
    a, b = r["loader"][1], r["loader"][2]
    if a["res"][0] != 0 or a["draws"] != b["draws"] or a["res"] != b["res"] or not a["draws"]:
        ctx.violation("F7b", {"stream": "corpus", "document": f7b["case"]["doc"], "flags": f7b["case"]["flags"],
                              "first_run": a["draws"], "second_run": b["draws"], "what": "regression of F7b: " + f7b["what"]})
    pr = r["loader"][3]["res"]
    rel = [tg[1][0][1][0] for tg in pr[1][1][0][2][0]] if pr[0] == 0 else None
    if rel != per["expect_release_us"]:
        ctx.violation("periodic_loader", {"stream": "corpus", "document": per["case"]["doc"], "flags": per["case"]["flags"],
                                          "implementation": pr, "expected_release_us": per["expect_release_us"],
                                          "what": "regression of C19-periodic-loader: " + per["what"]})
    g = r["release_times"][0]["res"]
    if g[0] != 0 or g[1][0] != gam["expect_first_release"]:
        ctx.violation("gamma_start_unit", {"stream": "corpus", "case": gam["case"], "implementation": g,
                                           "expected_first_release": gam["expect_first_release"],
                                           "what": "regression of C19-gamma-start-unit: " + gam["what"]})
    br = r["instantiate"][0]
    dls = [t[2] for tg in br["res"][1][0] for t in tg[1]] if br["res"][0] == 0 else None
    if dls is None or any(d != bpd["expect_deadline"] for d in dls) or not dls:
        ctx.violation("branch_predicated", {"stream": "corpus", "case": bpd["case"], "implementation": br["res"],
                                            "expected_deadline": bpd["expect_deadline"],
                                            "what": "regression of C19-branch-predicated-deadlines: " + bpd["what"]})
    # --- the open finding: replayed, reported only while it still fails
    st = r["closed_loop"][0]["steps"]
    if len(st) == 2 and st[0][0] == 0 and st[1][0] == 0 and st[0][1] == [1] and st[1][1] == [2]:
        ctx.known("F12a", "Workload.notify_task_graph_completion(G@0) called twice (concurrency 1, N 3) releases G@1 and G@2: "
                          "two graphs in flight; the bookkeeping relies on the caller's one-notification-per-graph contract "
                          "(lemma closed_loop_double_notify_refuted; the simulator breaks it at simulator.py:664-694)")
