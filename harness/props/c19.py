"""C19 — workload and cluster descriptions are instantiated faithfully."""
import core
from core import gz, glist

FILES = ["workload/jobs.py", "workload/workload.py", "utils.py", "data/workload_loader.py", "data/worker_loader.py",
         "workload/graph.py", "workload/profile.py", "workload/strategy.py", "workload/resource.py"]
TRUSTED = [
    "translator py2v.py fragment Time (EventTime arithmetic used by the model is the translated one)",
    "IEEE-754 binary64: modelled as exact dyadic rationals with round-to-nearest-even to 53 bits after every "
    "operation (Model/Release.v round53/fl_add/fl_mul/fl_div); overflow/inf/nan and -0.0 are outside the model; "
    "checked against CPython/numpy by the S-float stream, not proved against Flocq",
    "numpy.linspace for the FIXED policy is modelled by exact integers start + i*period (exact below 2^53; checked at "
    "the boundary by the stream, not proved); numpy.arange on int64 is modelled as Python range",
    "random draws are oracles: the arrays returned by numpy Generator.poisson/gamma and the value returned by "
    "random.Random.uniform are recorded on the implementation side and given to the model; theorems quantify over "
    "all draws satisfying the stated contract (non-negative inter-arrival values; uniform value inside the integer "
    "envelope of the requested interval)",
    "YAML/JSON parsing (PyYAML, json) is glue: covered by the S-loader correspondence stream only",
]
UN = ["U_US", "U_MS", "U_S"]
UF = [1, 1000, 10 ** 6]
PT = {"periodic": "PERIODIC", "fixed": "FIXED", "poisson": "POISSON", "gamma": "GAMMA", "closed_loop": "CLOSED_LOOP",
      "fixed_gamma": "FIXED_AND_GAMMA"}
HDR = "From Verif Require Import Gen.Src_Time Model.Release."


def g_et(p):
    return "(mkET %s %s)" % (gz(p[0]), UN[p[1]])


def g_fl(p):
    return "(mkF %s %s)" % (gz(p[0]), gz(p[1]))


def g_num(p):
    return "(mkF %s 0%%Z)" % gz(p[1]) if p[0] == "z" else g_fl(p[1])


def us(p):
    return p[0] * UF[p[1]]


INVALID = [-1, 0]
M1 = ["f", [-1, 0]]


def g_policy(p):
    k = p["type"]
    period = p.get("period", INVALID)
    n = p.get("n", -1)
    rate = p.get("rate", M1)
    coef = p.get("coef", M1)
    conc = p.get("conc", 0)
    base = p.get("base", ["z", 0])
    return "(mkPol %s %s %s %s %s %s %s %s)" % (PT[k], g_et(period), gz(n), g_num(rate), g_num(coef), gz(conc),
                                               g_et(p["start"]), g_num(base))


def rand_fl(rng, lo_e=-60, hi_e=20, signed=True):
    r = rng.random()
    if r < 0.1:
        return [0, 0]
    if r < 0.45:
        m = rng.randrange(1, 2 ** 53)
    elif r < 0.7:
        m = rng.randrange(1, 5000)
    elif r < 0.85:
        m = 2 ** 53 - 1 - rng.randrange(4)
    else:
        m = rng.choice([1, 3, 5, 2 ** 52, 2 ** 52 + 1])
    if signed and rng.random() < 0.3:
        m = -m
    return [m, rng.randint(lo_e, hi_e)]


def rate_num(rng):
    r = rng.random()
    if r < 0.06:
        return ["z", 0] if rng.random() < 0.5 else ["f", [0, 0]]
    if r < 0.12:
        return ["f", [-rng.randrange(1, 100), -rng.randrange(3, 12)]]
    if r < 0.2:
        return ["z", rng.randint(1, 3)]
    # m * 2^-k with k in 3..16: rates between ~1e-5 and a few units
    return ["f", [rng.randrange(1, 200), -rng.randrange(3, 17)]]


def gen_policy(rng, kind):
    def t(lo, hi):
        u = 0 if rng.random() < 0.7 else rng.randrange(3)
        return [rng.randint(lo, hi) // (UF[u] if rng.random() < 0.5 else 1), u]
    start = t(-50, 5000)
    if rng.random() < 0.2:
        start = [0, 0]
    n = rng.choice([-2, -1, 0, 1, 1, 2, 2, 3, 4, 5, 7, 12])
    p = {"type": kind, "start": start, "seed": rng.randrange(2 ** 31)}
    if kind == "periodic":
        p["period"] = t(-40, 900) if rng.random() < 0.9 else [0, rng.randrange(3)]
        if us(p["period"]) != 0:
            span = rng.randint(-3, 40) * us(p["period"]) + rng.randint(-3, 3)
        else:
            span = rng.randint(-10, 1000)
        comp = us(start) + span
        cu = rng.randrange(3) if rng.random() < 0.3 else 0
        # a coarser unit only when it is exact, so the horizon stays where intended
        completion = [comp // UF[cu], cu] if comp % UF[cu] == 0 else [comp, 0]
        return p, completion
    if kind == "fixed":
        p["period"] = t(-40, 900)
        p["n"] = n
        if rng.random() < 0.04:       # boundary of exactness of the float computation
            p["period"] = [2 ** 49, 0]
            p["n"] = rng.choice([3, 5, 7])
            p["start"] = [rng.randint(-5, 5), 0]
    elif kind == "poisson":
        p["rate"] = rate_num(rng)
        p["n"] = n
    elif kind == "gamma":
        p["rate"] = rate_num(rng)
        p["coef"] = rate_num(rng) if rng.random() < 0.3 else ["f", [rng.randrange(1, 64), -rng.randrange(0, 5)]]
        p["n"] = n
    elif kind == "fixed_gamma":
        p["rate"] = rate_num(rng)
        p["base"] = rate_num(rng)
        p["coef"] = ["f", [rng.randrange(1, 64), -rng.randrange(0, 5)]] if rng.random() < 0.9 else rate_num(rng)
        p["n"] = rng.choice([-1, 0, 1, 2, 3, 5, 8, 13, 20])
    elif kind == "closed_loop":
        p["conc"] = rng.choice([-1, 0, 1, 1, 2, 3, 5])
        p["n"] = n
    return p, [rng.randint(0, 10 ** 6), 0]


KINDS = ["periodic", "fixed", "poisson", "gamma", "closed_loop", "fixed_gamma"]


def g_rt_case(pol, completion, draws):
    zd, fd = [], []
    for c in draws:
        if c[0] == "poisson":
            zd = c[2]
        else:
            fd = c[2]
    return "(mkRT %s %s %s %s)" % (g_policy(pol), g_et(completion), glist([gz(x) for x in zd]),
                                   glist([g_fl(x) for x in fd]))


def gen_float_ops(rng, n):
    ops = []
    kinds = ["add", "ofz", "round", "lt", "fuzz"]
    for i in range(n):
        k = kinds[i % 5]
        if k == "add":
            a = rand_fl(rng)
            b = rand_fl(rng)
            if rng.random() < 0.5:       # comparable magnitudes: rounding and cancellation actually happen
                b = [b[0], a[1] + rng.randint(-60, 60)]
            ops.append([k, a, b])
        elif k == "ofz":
            r = rng.random()
            z = rng.randint(-10 ** 6, 10 ** 6) if r < 0.3 else rng.choice([-1, 1]) * (2 ** rng.randint(52, 70) + rng.randint(-3, 3)) \
                if r < 0.8 else rng.randrange(-2 ** 64, 2 ** 64)
            ops.append([k, z])
        elif k == "round":
            r = rng.random()
            if r < 0.5:                  # halves and near-halves
                ops.append([k, [2 * rng.randint(-2000, 2000) + 1, -1 - (rng.random() < 0.3)]])
            else:
                ops.append([k, rand_fl(rng, -56, 12)])
        elif k == "lt":
            a = rand_fl(rng)
            b = rand_fl(rng) if rng.random() < 0.6 else [a[0] * 2, a[1] - 1]
            if abs(b[0]) >= 2 ** 53:
                b = a
            ops.append([k, a, b])
        elif k == "fuzz":
            t = rng.choice([0, 1, 7, 100, 999, 12345, 10 ** 6, 2 ** 40 + 1, 2 ** 53 - 2, 2 ** 60 + 3])
            u = rand_fl(rng, -55, 8, signed=rng.random() < 0.2)
            if rng.random() < 0.4:       # ties: x.5
                u = [2 * rng.randint(0, 500) + 1, -1]
            lo = rng.choice([0, 0, 0, 3, 50, 1000])
            hi = rng.choice([2 ** 63 - 1, 2 ** 63 - 1, 10, 100, 5000, 2])
            ops.append([k, t, u, lo, hi])
    return ops


def g_fop(o):
    k = o[0]
    if k == "add":
        return "(FAdd %s %s)" % (g_fl(o[1]), g_fl(o[2]))
    if k == "ofz":
        return "(FOfZ %s)" % gz(o[1])
    if k == "round":
        return "(FRound %s)" % g_fl(o[1])
    if k == "lt":
        return "(FLt %s %s)" % (g_fl(o[1]), g_fl(o[2]))
    if k == "fuzz":
        return "(FFuzz %s %s %s %s)" % (gz(o[1]), g_fl(o[2]), gz(o[3]), gz(o[4]))
    raise ValueError(k)



# --------------------------------------------------------------------------
# S-instantiate: job graphs built through the JobGraph API
# --------------------------------------------------------------------------
JOBNAMES = ["A", "B", "C", "D", "E", "F", "G_", "H"]


def gen_inst_case(rng, quick=True):
    n = rng.choice([1, 2, 2, 3, 3, 4, 4, 5, 6])
    if rng.random() < 0.02:
        n = 0
    jobs = []
    for k in range(n):
        name = k if rng.random() < 0.97 else rng.randrange(n)
        r = rng.random()
        slo = None if r < 0.6 else ([-1, 0] if r < 0.65 else [rng.randint(0, 900), 0] if r < 0.95 else [rng.randint(0, 3), 1])
        r = rng.random()
        prob = ["z", 1] if r < 0.1 else ["f", [1, 0]] if r < 0.7 else ["f", [0, 0]] if r < 0.85 else ["f", [rng.randrange(1, 8), -3]]
        nr = rng.choice([1, 1, 1, 2, 2, 3]) if rng.random() < 0.97 else 0
        runtimes = []
        for _ in range(nr):
            u = 0 if rng.random() < 0.85 else 1
            runtimes.append([rng.choice([0, 1, 10, 50, 100, 100, 250, 999]) if u == 0 else rng.randint(0, 2), u])
        jobs.append({"name": name, "slo": slo, "cond": rng.random() < 0.15, "term": rng.random() < 0.15, "prob": prob,
                     "runtimes": runtimes})
    edges = []
    dens = rng.choice([0.2, 0.4, 0.7])
    for a in range(n):
        for b in range(a + 1, n):
            if rng.random() < dens:
                edges.append([a, b])
    rng.shuffle(edges)
    if n >= 2 and rng.random() < 0.03:       # a duplicate edge
        edges.append(list(rng.choice(edges)) if edges else [0, 1])
    if n >= 2 and rng.random() < 0.02:       # a cycle
        edges.append([n - 1, 0])
        edges.append([0, n - 1])
    kind = rng.choice(["fixed", "fixed", "fixed", "poisson", "gamma", "closed_loop", "periodic"])
    pol, comp = gen_policy(rng, kind)
    if kind in ("fixed", "poisson", "gamma", "closed_loop"):
        pol["n"] = rng.choice([0, 1, 2, 2, 3])
    if kind == "closed_loop":
        pol["conc"] = rng.choice([1, 2, 3])
    if kind == "periodic" and us(pol["period"]) != 0:
        comp = [us(pol["start"]) + rng.randint(0, 3) * us(pol["period"]) + 1, 0]
    r = rng.random()
    variance = None if r < 0.3 else [rng.choice([0, 0, 10, 20, 50]), rng.choice([0, 10, 20, 33, 60, 100])] if r < 0.9 \
        else [rng.randint(-50, 50), rng.randint(-50, 50)]
    flags = None
    if rng.random() < 0.6:
        flags = {"minv": rng.choice([0, 0, 5, 10]), "maxv": rng.choice([0, 20, 20, 50]),
                 "minb": rng.choice([0, 0, 0, 30, 500]), "maxb": rng.choice([2 ** 63 - 1, 2 ** 63 - 1, 40, 200, 5000, 10])}
    return {"jobs": jobs, "edges": edges, "policy": pol, "variance": variance, "flags": flags, "completion": comp,
            "names": JOBNAMES}


def g_job(k, j):
    slo = INVALID if j["slo"] is None else j["slo"]
    return "(mkJob %s %s %s %s %s %s %s)" % (gz(k), gz(j["name"]), g_et(slo), core.gbool(j["cond"]), core.gbool(j["term"]),
                                            g_num(j["prob"]), glist([g_et(r) for r in j["runtimes"]]))


def g_iflags(f):
    if f is None:
        return "no_flags"
    return "(mkIF %s %s (%s, %s))" % (gz(f["minb"]), gz(f["maxb"]), gz(f["minv"]), gz(f["maxv"]))


def g_inst_case(c, r):
    zd, fd = [], []
    for d in r["draws"]:
        if d[0] == "poisson":
            zd = d[2]
        else:
            fd = d[2]
    var = "None" if c["variance"] is None else "(Some (%s, %s))" % (gz(c["variance"][0]), gz(c["variance"][1]))
    return "(mkIC %s %s %s %s %s %s %s %s %s)" % (
        glist([g_job(k, j) for k, j in enumerate(c["jobs"])]),
        glist(["(%s, %s)" % (gz(a), gz(b)) for a, b in c["edges"]]),
        g_policy(c["policy"]), var, g_iflags(c["flags"]), g_et(c["completion"]),
        glist([gz(x) for x in zd]), glist([g_fl(x) for x in fd]), glist([g_fl(x) for x in r["uniform"]]))


def gen_cl_case(rng):
    conc = rng.choice([1, 1, 2, 2, 3, 4, -1, 0])
    n = rng.choice([1, 2, 3, 4, 5, 7, 9, 0, -1])
    k = max(0, min(conc, n)) if n >= conc else max(0, n)
    live = list(range(k))
    nxt = k
    remaining = n - k
    notify = []
    contract = True
    for _ in range(rng.randint(0, 12)):
        r = rng.random()
        if live and r < 0.8:
            g = live.pop(rng.randrange(len(live)))
        elif r < 0.9:
            g = rng.randint(0, nxt + 1)          # maybe finished already, maybe unknown
            if g in live:
                live.remove(g)
            else:
                contract = False
        else:
            g = nxt + rng.randint(1, 3)
            contract = False
        notify.append(g)
        if g < nxt and remaining > 0:
            live.append(nxt)
            nxt += 1
            remaining -= 1
    return {"conc": conc, "n": n, "notify": notify, "start": rng.choice([0, 0, 5, 1000]), "contract": contract}


def run(ctx):
    ctx.fingerprint(FILES)
    ctx.translate(["Time"])
    ctx.build("C19", deps=["Model/Release.v"])
    quick = ctx.tier == "quick"
    rng = ctx.rng
    n_rt = 1200 if quick else 12000
    n_fl = 1000 if quick else 10000

    rt_cases = []
    for i in range(n_rt):
        kind = KINDS[i % len(KINDS)]
        pol, comp = gen_policy(rng, kind)
        rt_cases.append({"policy": pol, "completion": comp})
    fops = gen_float_ops(rng, n_fl)
    impl = core.run_impl("release.py", {"release_times": rt_cases, "float_ops": fops})

    # ---------------- S-float
    ctx.rules.append("S-float: binary64 +, int->float, round(), <, EventTime.fuzz(forced draw) on generated doubles with "
                     "full 53-bit mantissas, ties, cancellation, 2^53 boundaries; distinct = distinct (op, operands); "
                     "non-trivial = the exact result is not representable (rounding happens) or is a tie")
    try:
        cases = [(g_fop(o), r, o) for o, r in zip(fops, impl["float_ops"])]
        mism = ctx.model_stream("S-float", HDR, "fop", "f_observe", cases)
        for idx, mv in mism[:3]:
            ctx.violation("float%d" % idx, {"stream": "S-float", "case": fops[idx], "implementation": impl["float_ops"][idx],
                                             "model": mv, "what": "binary64 model disagrees with CPython"})
    except core.ModelEvalError as e:
        ctx.broken.append({"kind": "correspondence", "name": "S-float", "detail": str(e)[-600:]})
    ctx.cov["distinct_nontrivial"] += len({repr(o) for o in fops if o[0] in ("add", "round", "fuzz")})

    # ---------------- S-release-times
    ctx.rules.append("S-release-times: ReleasePolicy.get_release_times for all six policy types; start/period/horizon in "
                     "us/ms/s incl. negative and zero, N in -2..12, rates/coefficients incl. 0, negative and integers; the "
                     "numpy draws recorded by a wrapper around policy._rng are the model's oracle; distinct = distinct "
                     "(policy, horizon); non-trivial = at least 2 releases or an error result")
    seen = set()
    nt = 0
    dist = {}
    errs = 0
    for c, r in zip(rt_cases, impl["release_times"]):
        key = repr((sorted((k, v) for k, v in c["policy"].items() if k != "seed"), c["completion"]))
        k = c["policy"]["type"]
        dist[k] = dist.get(k, 0) + 1
        if key in seen:
            continue
        seen.add(key)
        if r["res"][0] == 1:
            errs += 1
            nt += 1
        elif len(r["res"][1]) >= 2:
            nt += 1
    ctx.cov["distinct_nontrivial"] += nt
    ctx.cov["input_distribution"] = {"release_policy_cases": dist, "release_policy_errors": errs}
    ctx.sample({"stream": "S-release-times", "case": rt_cases[2], "impl": impl["release_times"][2]})
    try:
        cases = [(g_rt_case(c["policy"], c["completion"], r["draws"]), r["res"], c)
                 for c, r in zip(rt_cases, impl["release_times"])]
        mism = ctx.model_stream("S-release-times", HDR, "rt_case", "rt_observe", cases)
        for idx, mv in mism[:3]:
            ctx.violation("rt%d" % idx, {"stream": "S-release-times", "case": rt_cases[idx],
                                          "implementation": impl["release_times"][idx], "model": mv,
                                          "what": "release times differ from the model of get_release_times"})
    except core.ModelEvalError as e:
        ctx.broken.append({"kind": "correspondence", "name": "S-release-times", "detail": str(e)[-600:]})

    # ---------------- S-instantiate, S-closed-loop
    n_inst = 700 if quick else 7000
    n_cl = 400 if quick else 4000
    inst_cases = [gen_inst_case(rng) for _ in range(n_inst)]
    cl_cases = [gen_cl_case(rng) for _ in range(n_cl)]
    impl2 = core.run_impl("release.py", {"instantiate": inst_cases, "closed_loop": cl_cases})
    ctx.rules.append("S-instantiate: JobGraph built with add_job/add_child (1-6 jobs, random DAG edges in shuffled order, "
                     "rare duplicate names/edges/cycles/strategy-less jobs/empty graphs), every policy, variance None or a pair "
                     "(incl. reversed and negative), flags None or (min/max deadline, default variance); "
                     "JobGraph.generate_task_graphs compared field by field (task names, release, deadline, probability, "
                     "children order, freshness of ids) with the recorded numpy and uniform draws as oracle; distinct = "
                     "distinct case; non-trivial = >= 2 jobs with an edge and >= 1 task graph, or an error")
    nt = 0
    shapes = {"ok_graphs": 0, "errors": 0, "with_edges": 0}
    for c, r in zip(inst_cases, impl2["instantiate"]):
        if r["res"][0] == 1:
            shapes["errors"] += 1
            nt += 1
        else:
            shapes["ok_graphs"] += len(r["res"][1][0])
            if c["edges"] and r["res"][1][0]:
                nt += 1
                shapes["with_edges"] += 1
    ctx.cov["distinct_nontrivial"] += nt
    ctx.cov["input_distribution"]["instantiate"] = shapes
    ctx.sample({"stream": "S-instantiate", "case": inst_cases[0], "impl": impl2["instantiate"][0]})
    try:
        cases = [(g_inst_case(c, r), r["res"], c) for c, r in zip(inst_cases, impl2["instantiate"])]
        mism = ctx.model_stream("S-instantiate", HDR, "inst_case", "inst_observe", cases, shard=100)
        for idx, mv in mism[:3]:
            ctx.violation("inst%d" % idx, {"stream": "S-instantiate", "case": inst_cases[idx],
                                            "implementation": impl2["instantiate"][idx], "model": mv,
                                            "what": "generated task graphs differ from the model's instantiation"})
        cases = [(g_inst_case(c, r), r["ct"], c) for c, r in zip(inst_cases, impl2["instantiate"])]
        mism = ctx.model_stream("S-completion-time", HDR, "inst_case", "ct_observe", cases, shard=100)
        for idx, mv in mism[:3]:
            ctx.violation("ct%d" % idx, {"stream": "S-completion-time", "case": inst_cases[idx],
                                          "implementation": impl2["instantiate"][idx]["ct"], "model": mv,
                                          "what": "JobGraph.completion_time differs from the model"})
    except core.ModelEvalError as e:
        ctx.broken.append({"kind": "correspondence", "name": "S-instantiate", "detail": str(e)[-600:]})

    ctx.rules.append("S-closed-loop: Workload.notify_task_graph_completion driven with generated notification sequences "
                     "(in-flight graphs, already finished graphs, unknown graphs) on closed-loop job graphs with "
                     "concurrency/N in -1..9; released graph, remaining count and errors compared per call; "
                     "non-trivial = at least one re-release")
    nt = 0
    for c, r in zip(cl_cases, impl2["closed_loop"]):
        if any(s[0] == 0 and s[1] for s in r["steps"]):
            nt += 1
    ctx.cov["distinct_nontrivial"] += nt
    try:
        cases = []
        keep = []
        for c, r in zip(cl_cases, impl2["closed_loop"]):
            if r["init"][0] == 1:
                continue                  # constructor refused (conc == 0 or n == 0): nothing to drive
            keep.append((c, r))
            exp = [[s[0], ([s[1][0]] if s[1] else []), s[2]] if s[0] == 0 else [1, s[1]] for s in r["steps"]]
            cases.append(("(%s, %s, %s)" % (gz(c["conc"]), gz(c["n"]), glist([gz(g) for g in c["notify"]])), exp, c))
        mism = ctx.model_stream("S-closed-loop", HDR, "Z * Z * list Z", "cl_observe", cases)
        for idx, mv in mism[:3]:
            ctx.violation("cl%d" % idx, {"stream": "S-closed-loop", "case": keep[idx][0], "implementation": keep[idx][1],
                                          "model": mv, "what": "closed-loop re-release differs from the bookkeeping machine"})
        for c, r in keep:
            bad = [s for s in r["steps"] if s[0] == 0 and (len(s[1]) > 1 or s[3] != 1)]
            if bad:
                ctx.violation("cltime", {"stream": "S-closed-loop", "case": c, "implementation": r,
                                         "what": "a re-released graph does not start at completion + 1us at its sources"})
                break
    except core.ModelEvalError as e:
        ctx.broken.append({"kind": "correspondence", "name": "S-closed-loop", "detail": str(e)[-600:]})
