"""C19 — workload and cluster descriptions are instantiated faithfully."""
import core
from core import gz, glist

FILES = ["workload/jobs.py", "workload/workload.py", "utils.py", "data/workload_loader.py", "data/worker_loader.py",
         "workload/graph.py", "workload/profile.py", "workload/strategy.py", "workload/resource.py"]
TRUSTED = [
    "translator py2v.py fragment Time (EventTime arithmetic used by the model is the translated one)",
    "IEEE-754 binary64: modelled as exact dyadic rationals with round-to-nearest-even to 53 bits after every "
    "operation (Model/Release.v round53/fl_add/fl_mul/fl_div); overflow/inf/nan and -0.0 are outside the model; "
    "checked against CPython/numpy by the S-float stream, not proved against Flocq",
    "numpy.linspace for the FIXED policy is modelled by exact integers start + i*period (exact below 2^53; checked at "
    "the boundary by the stream, not proved); numpy.arange on int64 is modelled as Python range",
    "random draws are oracles: the arrays returned by numpy Generator.poisson/gamma and the value returned by "
    "random.Random.uniform are recorded on the implementation side and given to the model; theorems quantify over "
    "all draws satisfying the stated contract (non-negative inter-arrival values; uniform value inside the integer "
    "envelope of the requested interval)",
    "YAML/JSON parsing (PyYAML, json) is glue: covered by the S-loader correspondence stream only",
]
UN = ["U_US", "U_MS", "U_S"]
UF = [1, 1000, 10 ** 6]
PT = {"periodic": "PERIODIC", "fixed": "FIXED", "poisson": "POISSON", "gamma": "GAMMA", "closed_loop": "CLOSED_LOOP",
      "fixed_gamma": "FIXED_AND_GAMMA"}
HDR = "From Verif Require Import Gen.Src_Time Model.Release."


def g_et(p):
    return "(mkET %s %s)" % (gz(p[0]), UN[p[1]])


def g_fl(p):
    return "(mkF %s %s)" % (gz(p[0]), gz(p[1]))


def g_num(p):
    return "(mkF %s 0%%Z)" % gz(p[1]) if p[0] == "z" else g_fl(p[1])


def us(p):
    return p[0] * UF[p[1]]


INVALID = [-1, 0]
M1 = ["f", [-1, 0]]


def g_policy(p):
    k = p["type"]
    period = p.get("period", INVALID)
    n = p.get("n", -1)
    rate = p.get("rate", M1)
    coef = p.get("coef", M1)
    conc = p.get("conc", 0)
    base = p.get("base", ["z", 0])
    return "(mkPol %s %s %s %s %s %s %s %s)" % (PT[k], g_et(period), gz(n), g_num(rate), g_num(coef), gz(conc),
                                               g_et(p["start"]), g_num(base))


def rand_fl(rng, lo_e=-60, hi_e=20, signed=True):
    r = rng.random()
    if r < 0.1:
        return [0, 0]
    if r < 0.45:
        m = rng.randrange(1, 2 ** 53)
    elif r < 0.7:
        m = rng.randrange(1, 5000)
    elif r < 0.85:
        m = 2 ** 53 - 1 - rng.randrange(4)
    else:
        m = rng.choice([1, 3, 5, 2 ** 52, 2 ** 52 + 1])
    if signed and rng.random() < 0.3:
        m = -m
    return [m, rng.randint(lo_e, hi_e)]


def rate_num(rng):
    r = rng.random()
    if r < 0.06:
        return ["z", 0] if rng.random() < 0.5 else ["f", [0, 0]]
    if r < 0.12:
        return ["f", [-rng.randrange(1, 100), -rng.randrange(3, 12)]]
    if r < 0.2:
        return ["z", rng.randint(1, 3)]
    # m * 2^-k with k in 3..16: rates between ~1e-5 and a few units
    return ["f", [rng.randrange(1, 200), -rng.randrange(3, 17)]]


def gen_policy(rng, kind):
    def t(lo, hi):
        u = 0 if rng.random() < 0.7 else rng.randrange(3)
        return [rng.randint(lo, hi) // (UF[u] if rng.random() < 0.5 else 1), u]
    start = t(-50, 5000)
    if rng.random() < 0.2:
        start = [0, 0]
    n = rng.choice([-2, -1, 0, 1, 1, 2, 2, 3, 4, 5, 7, 12])
    p = {"type": kind, "start": start, "seed": rng.randrange(2 ** 31)}
    if kind == "periodic":
        p["period"] = t(-40, 900) if rng.random() < 0.9 else [0, rng.randrange(3)]
        if us(p["period"]) != 0:
            span = rng.randint(-3, 40) * us(p["period"]) + rng.randint(-3, 3)
        else:
            span = rng.randint(-10, 1000)
        comp = us(start) + span
        cu = rng.randrange(3) if rng.random() < 0.3 else 0
        # a coarser unit only when it is exact, so the horizon stays where intended
        completion = [comp // UF[cu], cu] if comp % UF[cu] == 0 else [comp, 0]
        return p, completion
    if kind == "fixed":
        p["period"] = t(-40, 900)
        p["n"] = n
        if rng.random() < 0.04:       # boundary of exactness of the float computation
            p["period"] = [2 ** 49, 0]
            p["n"] = rng.choice([3, 5, 7])
            p["start"] = [rng.randint(-5, 5), 0]
    elif kind == "poisson":
        p["rate"] = rate_num(rng)
        p["n"] = n
    elif kind == "gamma":
        p["rate"] = rate_num(rng)
        p["coef"] = rate_num(rng) if rng.random() < 0.3 else ["f", [rng.randrange(1, 64), -rng.randrange(0, 5)]]
        p["n"] = n
    elif kind == "fixed_gamma":
        p["rate"] = rate_num(rng)
        p["base"] = rate_num(rng)
        p["coef"] = ["f", [rng.randrange(1, 64), -rng.randrange(0, 5)]] if rng.random() < 0.9 else rate_num(rng)
        p["n"] = rng.choice([-1, 0, 1, 2, 3, 5, 8, 13, 20])
    elif kind == "closed_loop":
        p["conc"] = rng.choice([-1, 0, 1, 1, 2, 3, 5])
        p["n"] = n
    return p, [rng.randint(0, 10 ** 6), 0]


KINDS = ["periodic", "fixed", "poisson", "gamma", "closed_loop", "fixed_gamma"]


def g_rt_case(pol, completion, draws):
    zd, fd = [], []
    for c in draws:
        if c[0] == "poisson":
            zd = c[2]
        else:
            fd = c[2]
    return "(mkRT %s %s %s %s)" % (g_policy(pol), g_et(completion), glist([gz(x) for x in zd]),
                                   glist([g_fl(x) for x in fd]))


def gen_float_ops(rng, n):
    ops = []
    kinds = ["add", "ofz", "round", "lt", "fuzz"]
    for i in range(n):
        k = kinds[i % 5]
        if k == "add":
            a = rand_fl(rng)
            b = rand_fl(rng)
            if rng.random() < 0.5:       # comparable magnitudes: rounding and cancellation actually happen
                b = [b[0], a[1] + rng.randint(-60, 60)]
            ops.append([k, a, b])
        elif k == "ofz":
            r = rng.random()
            z = rng.randint(-10 ** 6, 10 ** 6) if r < 0.3 else rng.choice([-1, 1]) * (2 ** rng.randint(52, 70) + rng.randint(-3, 3)) \
                if r < 0.8 else rng.randrange(-2 ** 64, 2 ** 64)
            ops.append([k, z])
        elif k == "round":
            r = rng.random()
            if r < 0.5:                  # halves and near-halves
                ops.append([k, [2 * rng.randint(-2000, 2000) + 1, -1 - (rng.random() < 0.3)]])
            else:
                ops.append([k, rand_fl(rng, -56, 12)])
        elif k == "lt":
            a = rand_fl(rng)
            b = rand_fl(rng) if rng.random() < 0.6 else [a[0] * 2, a[1] - 1]
            if abs(b[0]) >= 2 ** 53:
                b = a
            ops.append([k, a, b])
        elif k == "fuzz":
            t = rng.choice([0, 1, 7, 100, 999, 12345, 10 ** 6, 2 ** 40 + 1, 2 ** 53 - 2, 2 ** 60 + 3])
            u = rand_fl(rng, -55, 8, signed=rng.random() < 0.2)
            if rng.random() < 0.4:       # ties: x.5
                u = [2 * rng.randint(0, 500) + 1, -1]
            lo = rng.choice([0, 0, 0, 3, 50, 1000])
            hi = rng.choice([2 ** 63 - 1, 2 ** 63 - 1, 10, 100, 5000, 2])
            ops.append([k, t, u, lo, hi])
    return ops


def g_fop(o):
    k = o[0]
    if k == "add":
        return "(FAdd %s %s)" % (g_fl(o[1]), g_fl(o[2]))
    if k == "ofz":
        return "(FOfZ %s)" % gz(o[1])
    if k == "round":
        return "(FRound %s)" % g_fl(o[1])
    if k == "lt":
        return "(FLt %s %s)" % (g_fl(o[1]), g_fl(o[2]))
    if k == "fuzz":
        return "(FFuzz %s %s %s %s)" % (gz(o[1]), g_fl(o[2]), gz(o[3]), gz(o[4]))
    raise ValueError(k)


def run(ctx):
    ctx.fingerprint(FILES)
    ctx.translate(["Time"])
    ctx.build("C19", deps=["Model/Release.v"])
    quick = ctx.tier == "quick"
    rng = ctx.rng
    n_rt = 1200 if quick else 12000
    n_fl = 1000 if quick else 10000

    rt_cases = []
    for i in range(n_rt):
        kind = KINDS[i % len(KINDS)]
        pol, comp = gen_policy(rng, kind)
        rt_cases.append({"policy": pol, "completion": comp})
    fops = gen_float_ops(rng, n_fl)
    impl = core.run_impl("release.py", {"release_times": rt_cases, "float_ops": fops})

    # ---------------- S-float
    ctx.rules.append("S-float: binary64 +, int->float, round(), <, EventTime.fuzz(forced draw) on generated doubles with "
                     "full 53-bit mantissas, ties, cancellation, 2^53 boundaries; distinct = distinct (op, operands); "
                     "non-trivial = the exact result is not representable (rounding happens) or is a tie")
    try:
        cases = [(g_fop(o), r, o) for o, r in zip(fops, impl["float_ops"])]
        mism = ctx.model_stream("S-float", HDR, "fop", "f_observe", cases)
        for idx, mv in mism[:3]:
            ctx.violation("float%d" % idx, {"stream": "S-float", "case": fops[idx], "implementation": impl["float_ops"][idx],
                                             "model": mv, "what": "binary64 model disagrees with CPython"})
    except core.ModelEvalError as e:
        ctx.broken.append({"kind": "correspondence", "name": "S-float", "detail": str(e)[-600:]})
    ctx.cov["distinct_nontrivial"] += len({repr(o) for o in fops if o[0] in ("add", "round", "fuzz")})

    # ---------------- S-release-times
    ctx.rules.append("S-release-times: ReleasePolicy.get_release_times for all six policy types; start/period/horizon in "
                     "us/ms/s incl. negative and zero, N in -2..12, rates/coefficients incl. 0, negative and integers; the "
                     "numpy draws recorded by a wrapper around policy._rng are the model's oracle; distinct = distinct "
                     "(policy, horizon); non-trivial = at least 2 releases or an error result")
    seen = set()
    nt = 0
    dist = {}
    errs = 0
    for c, r in zip(rt_cases, impl["release_times"]):
        key = repr((sorted((k, v) for k, v in c["policy"].items() if k != "seed"), c["completion"]))
        k = c["policy"]["type"]
        dist[k] = dist.get(k, 0) + 1
        if key in seen:
            continue
        seen.add(key)
        if r["res"][0] == 1:
            errs += 1
            nt += 1
        elif len(r["res"][1]) >= 2:
            nt += 1
    ctx.cov["distinct_nontrivial"] += nt
    ctx.cov["input_distribution"] = {"release_policy_cases": dist, "release_policy_errors": errs}
    ctx.sample({"stream": "S-release-times", "case": rt_cases[2], "impl": impl["release_times"][2]})
    try:
        cases = [(g_rt_case(c["policy"], c["completion"], r["draws"]), r["res"], c)
                 for c, r in zip(rt_cases, impl["release_times"])]
        mism = ctx.model_stream("S-release-times", HDR, "rt_case", "rt_observe", cases)
        for idx, mv in mism[:3]:
            ctx.violation("rt%d" % idx, {"stream": "S-release-times", "case": rt_cases[idx],
                                          "implementation": impl["release_times"][idx], "model": mv,
                                          "what": "release times differ from the model of get_release_times"})
    except core.ModelEvalError as e:
        ctx.broken.append({"kind": "correspondence", "name": "S-release-times", "detail": str(e)[-600:]})
