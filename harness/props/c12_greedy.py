"""C12, greedy part: with enforce_deadlines EDF and FIFO cancel exactly the hopeless tasks (deadline < now + fastest
runtime), tight deadlines included; LSF has no admission test.  A PART module (see c10_greedy.py)."""
import json

import core
from props import c13 as G

FILES = G.FILES
TRUSTED = G.TRUSTED
EXPLANATION = ("Greedy part of C12: theorems in Props/C12_greedy.v (translated admission test = documented rule, cancel <-> hopeless for EDF/FIFO, LSF never cancels); the Coq monitor c12_check (documented rule, proved equivalent to its Prop form, proved true of the model) runs on the implementation's decisions for inputs concentrated on the boundary deadline = now + fastest runtime.")
PROPS_FILE = "C12_greedy"


def run(ctx):
    ctx.fingerprint(FILES)
    ctx.translate(["Greedy"])
    ctx.build(PROPS_FILE, deps=["Model/Greedy.v"])
    G.ensure_model(ctx)
    quick = ctx.tier == "quick"
    n = 900 if quick else 9000
    cases = []
    while len(cases) < n:
        c = G.gen_case(ctx.rng, boundary=True)
        if not G.f10_signature(c):
            cases.append(c)
    impl = G.run_impl(cases)
    ctx.rules.append(
        "C12-greedy: S-greedy inputs with deadlines drawn around now + fastest runtime (offsets -2,-1,0,0,1,1,3,6), enforcement on "
        "in 80% of the EDF/FIFO cases -> (a) decisions equal the model's, (b) Coq monitor c12_check on the implementation's "
        "decisions with the DOCUMENTED rule: cancelled <-> deadline < now + min runtime, (c) LSF and enforcement-off runs never "
        "cancel; distinct = distinct case; non-trivial = enforcement on and some offered task within one step (1 us x the case's scale) of the boundary. Times are in mixed units (see S-greedy).")
    seen = set()
    nt = 0
    tight = past = 0
    for c, r in zip(cases, impl):
        near = False
        for ti, (d, _, _) in zip(r["offered"], r["offered_attrs"]):
            f = min(s["runtime"] for s in c["tasks"][ti]["strats"])
            near = near or abs(d - c["now"] - f) <= c.get("scale", 1)
            tight += d == c["now"] + f
            past += d < c["now"] + f
        k = json.dumps(c, sort_keys=True)
        if k not in seen:
            seen.add(k)
            nt += bool(c["enforce"] and near and r["result"][0] == 0)
    ctx.cov["distinct_nontrivial"] += nt
    dist = ctx.cov.setdefault("input_distribution", {})
    dist["c12_greedy"] = {"cases": len(cases), "enforce": sum(c["enforce"] for c in cases), "offered_tight": tight,
                          "offered_hopeless": past,
                          "cancel_decisions": sum(sum(d[0] == 0 for d in r["result"][1]) for r in impl if r["result"][0] == 0)}
    ctx.sample({"stream": "C12-greedy", "case": cases[2], "implementation": impl[2]["result"]})
    G.stream_greedy(ctx, cases, impl, name="S-greedy-c12")
    n1 = G.monitor(ctx, "M-c12", "mon_c12", cases, impl, lambda c, r: c["enforce"] and c["policy"] != 2,
                   "deadline enforcement: a decision is a cancellation although the task is not hopeless, or a hopeless task "
                   "(deadline < now + fastest runtime) was not cancelled")
    n2 = G.monitor(ctx, "M-nocancel", "mon_no_cancel", cases, impl, lambda c, r: (not c["enforce"]) or c["policy"] == 2,
                   "a cancellation without deadline enforcement (or from LSF, which has no admission test)")
    if n1 is None or n2 is None:       # pure-Python form of the two monitors
        for i, (c, r) in enumerate(zip(cases, impl)):
            if r["result"][0] != 0:
                continue
            attrs = dict(zip(r["offered"], r["offered_attrs"]))
            for d in r["result"][1]:
                if d[1] not in attrs:
                    continue
                f = min(s["runtime"] for s in c["tasks"][d[1]]["strats"])
                hopeless = c["enforce"] and c["policy"] != 2 and attrs[d[1]][0] < c["now"] + f
                if hopeless != (d[0] == 0):
                    ctx.violation("pyc12_%d" % i, {"stream": "M-c12 (python fallback)", "case": c, "implementation": r["result"],
                                                   "task": d[1], "what": "cancelled <-> hopeless fails"})
                    return
    if ctx.broken and not ctx.violations:
        G.fallback_search(ctx, cases, impl, tag="c12ref")
