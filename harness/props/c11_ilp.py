"""C11 (ILP part) — a placed child has all co-decided parents placed and starts after them; a parent that is already
SCHEDULED and not re-decided counts with its expected finish (judged from the world description)."""
import core
from props import c10_ilp as common
from props.c10_ilp import g_instance, g_plan, g_asg, HEADER

TRUSTED = common.TRUSTED


def undecided_scheduled(w, r):
    """SCHEDULED tasks of the WORLD that the planner neither was offered nor treated as previously placed:
    [task, [planned start, worker, strategy]]"""
    dec = set(r.get("order", []))
    return [[t["id"], [t["prev"][2], t["prev"][0], t["prev"][1]]] for t in w["tasks"] if t["state"] == "S" and t["id"] not in dec]


def world_plan(w, r, plan):
    """returned decisions for the decided tasks, and the standing placement of every SCHEDULED task that was not decided"""
    got = dict((t, d) for t, d in plan)
    out = []
    for tid in r["order"]:
        if r["state"][str(tid)]["state"] != "X" and tid in got:
            out.append([tid, got[tid]])
    return out + undecided_scheduled(w, r)


def py_c11_ok(w, r, plan):
    """Python form of c11_check over the world: a placed child starts at or after the end of every parent that is placed in
    the plan (returned or standing) or running; a parent that is decided but unplaced blocks it"""
    tds = {t["id"]: t for t in w["tasks"]}
    got = dict((t, d) for t, d in plan)
    known = set(r["order"]) | set(got)

    def end_of(q):
        st = r["state"][str(q)]["state"]
        if st == "X":
            return w["now"] + r["state"][str(q)]["remaining"]
        d = got.get(q)
        if not d:
            return None
        return d[0] + tds[q]["strats"][d[2]][0]
    for g in w["graphs"]:
        for p_, c in g["edges"]:
            if c in got and got[c] and r["state"][str(c)]["state"] != "X" and p_ in known:
                e = end_of(p_)
                if e is None or e > got[c][0]:
                    return False
    return True


def world_monitor(ctx, worlds, results, stream="M-c11w"):
    cases, info = [], []
    for i, (w, r) in enumerate(zip(worlds, results)):
        if "plan" not in r or not r.get("order"):
            continue
        extra = undecided_scheduled(w, r)
        # every world: the RETURNED Placements are judged (not only the solver's values)
        pl = world_plan(w, r, r["plan"])
        cases.append("(%s, %s)" % (g_instance(w, r, extra=[t for t, _ in extra]), g_plan(pl)))
        info.append((i, pl))
    try:
        bad = ctx.monitor_stream(stream, HEADER, "instance * plan", "(fun p => c11_check (fst p) (snd p))", cases, shard=100)
    except core.ModelEvalError as e:
        ctx.broken.append({"kind": "monitor", "name": stream, "detail": str(e)[-800:]})
        bad = [j for j, (i, pl) in enumerate(info) if not py_c11_ok(worlds[i], results[i], pl)]
    for b in bad[:3]:
        i, pl = info[b]
        ctx.violation("c11w%d" % i, {"stream": stream, "world": worlds[i], "returned_placements": results[i]["plan"],
                                     "with_standing_placements": pl, "fed_to_the_model": results[i].get("seen_order"),
                                     "what": "in the RETURNED placements a child is placed although a co-decided parent is not, or before the "
                                             "parent's start + chosen runtime (running parent / SCHEDULED parent that was not re-decided: "
                                             "before its expected finish) (C11)"})
    pts = [(i, tag, vals) for i, tag, vals in common.monitor_points(worlds, results) if undecided_scheduled(worlds[i], results[i])]
    pc = []
    for i, tag, vals in pts:
        extra = undecided_scheduled(worlds[i], results[i])
        pc.append("(%s, %s, asg_of %s)" % (g_instance(worlds[i], results[i], extra=[t for t, _ in extra]), g_plan(extra), g_asg(vals)))
    try:
        bad = ctx.monitor_stream(stream + "p", HEADER, "instance * plan * assignment",
                                 "(fun q => c11_check (fst (fst q)) (overlay (snd (fst q)) (readback (fst (fst q)) (snd q))))", pc, shard=80)
        for b in bad[:3]:
            i, tag, vals = pts[b]
            ctx.violation("c11wp%d" % b, {"stream": stream + "p", "world": worlds[i], "point": tag, "assignment": vals,
                                          "standing_placements": undecided_scheduled(worlds[i], results[i]),
                                          "what": "a feasible point of the implementation's ILP starts a child before the expected finish of a "
                                                  "parent that is SCHEDULED and has no variables in the model (C11)"})
    except core.ModelEvalError as e:
        ctx.broken.append({"kind": "monitor", "name": stream + "p", "detail": str(e)[-800:]})
    ctx.cov["input_distribution"]["returned_plans_judged"] = len(info)
    ctx.cov["input_distribution"]["worlds_with_undecided_scheduled_tasks"] = sum(
        1 for i, _ in info if undecided_scheduled(worlds[i], results[i]))


def run(ctx):
    # whole graphs offered together (release_taskgraphs / lookahead): co-decided parents and children
    built, worlds, results = common.common_prelude(ctx, ctx.pid.split("_")[0] + "_ilp", 70, 1200, profile="graph", extra_dispatch=12)
    world_monitor(ctx, worlds, results)
    common.stream_csys(ctx, worlds, results)
    common.stream_plan(ctx, worlds, results)
    common.run_sat_monitor(ctx, worlds, results)
    n = common.run_monitor(ctx, worlds, results, "M-c11", "c11_check",
                           "a feasible point of the implementation's ILP places a child although a co-decided parent is "
                           "unplaced, or starts it before the parent's start + chosen runtime (running parent: before its "
                           "expected finish) (C11)")
    ctx.cov["input_distribution"]["monitored_points"] = n
    ctx.cov["input_distribution"]["dispatch_worlds"] = sum(1 for w in worlds if w["cfg"]["retract"] and any(
        t["state"] == "S" and t["prev"][2] <= w["now"] for t in w["tasks"]))
