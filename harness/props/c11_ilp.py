"""C11 (ILP part) — a placed child has all co-decided parents placed and starts after them."""
from props import c10_ilp as common

TRUSTED = common.TRUSTED


def run(ctx):
    # whole graphs offered together (release_taskgraphs / lookahead): co-decided parents and children
    built, worlds, results = common.common_prelude(ctx, ctx.pid.split("_")[0] + "_ilp", 80, 1200, profile="graph")
    common.stream_csys(ctx, worlds, results)
    common.stream_plan(ctx, worlds, results)
    common.run_sat_monitor(ctx, worlds, results)
    n = common.run_monitor(ctx, worlds, results, "M-c11", "c11_check",
                           "a feasible point of the implementation's ILP places a child although a co-decided parent is "
                           "unplaced, or starts it before the parent's start + chosen runtime (running parent: before its "
                           "expected finish) (C11)")
    ctx.cov["input_distribution"]["monitored_points"] = n
