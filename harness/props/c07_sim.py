"""C07, whole-simulation part: the conditional clauses monitored on every generated simulation (S-sim)."""
import simcheck
import simmon

TRUSTED = simcheck.TRUSTED_SIM


def run(ctx):
    simcheck.run_sim_property(ctx, [], simmon.mon_c07,
                              "a completed conditional did not release exactly one runnable child / did not cancel its "
                              "siblings, or resolution at submission left a reachable conditional without exactly one resolved child", machine=False)
