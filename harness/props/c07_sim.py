"""C07, whole-simulation part: the conditional clauses monitored on every generated simulation (S-sim)."""
import json
import os

import core
import simcheck
import simcommon
import simmon

TRUSTED = simcheck.TRUSTED_SIM


def run(ctx):
    simcheck.run_sim_property(ctx, [], lambda r, w: simmon.mon_c07(r, w),
                              "a completed conditional did not release exactly one runnable child / did not cancel its "
                              "siblings, the branch that was taken did not go on, a join or task was cancelled without a reason, "
                              "or resolution at submission left a reachable conditional without exactly one resolved child",
                              machine=False)
    # ---- S-sim-branches: conditionals without a join / with a side output inside a branch, under policies that place ready
    # tasks `now` (the shared S-sim family keeps such graphs out because planners and the fuzzing policy meet known finding
    # F42 on them).  A run in which the history signature of known finding F36 occurs (a VIRTUAL child of an overdue
    # SCHEDULED ancestor is offered and placed early — the only route by which a greedy policy reaches F42) is not judged.
    import random
    import simgen
    from props import c05
    brng = random.Random("C07-branches/%s" % ctx.seed)
    bworlds = []
    while len(bworlds) < (16 if ctx.tier == "quick" else 150):
        bw = simgen.gen_branch_world(brng)
        if "zero_runtime" not in simgen.signature(bw) and c05.feasible_world(bw):
            bworlds.append(bw)
    bruns = simcommon.run_worlds(bworlds)
    nfail = nskip = 0
    for i, (bw, br) in enumerate(zip(bworlds, bruns)):
        if not br["log"] or br["status"] != "ended":
            continue
        f36 = []
        simmon.mon_c18(br, bw, f36_out=f36)
        if f36:
            nskip += 1
            continue
        msgs = simmon.mon_c07(br, bw, [])
        if msgs:
            nfail += 1
            if nfail <= 3:
                ctx.violation("branch_world%d" % i, {"stream": "S-sim-branches monitor", "failures": msgs[:5], "world": bw,
                                                    "what": "in a graph whose conditional has no join (or a side output inside a branch) the "
                                                            "branch that was taken did not run to its end, or a task was cancelled without a reason"})
    ctx.cov["streams"]["S-sim-branches:impl-monitor"] = {"cases": len(bworlds), "failing": nfail,
                                                         "not_judged_history_signature_of_F36": nskip}
    for k in core.load_known():
        if k.get("status") == "known" and k.get("property") == "C07" and k.get("id") == "F42":
            w = json.load(open(os.path.join(core.ROOT, k["witness"])))
            r = simcommon.run_worlds([w], jobs=1, chunk=1)[0]
            hits = []
            simmon.mon_c07(r, w, hits)
            if hits:
                ctx.known("F42", k["what_fails"])
