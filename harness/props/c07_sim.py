"""C07, whole-simulation part: the conditional clauses monitored on every generated simulation (S-sim)."""
import json
import os

import core
import simcheck
import simcommon
import simmon

TRUSTED = simcheck.TRUSTED_SIM


def run(ctx):
    simcheck.run_sim_property(ctx, [], lambda r, w: simmon.mon_c07(r, w),
                              "a completed conditional did not release exactly one runnable child / did not cancel its "
                              "siblings, the branch that was taken did not go on, a join or task was cancelled without a reason, "
                              "or resolution at submission left a reachable conditional without exactly one resolved child",
                              machine=False)
    for k in core.load_known():
        if k.get("status") == "known" and k.get("property") == "C07" and k.get("id") == "F42":
            w = json.load(open(os.path.join(core.ROOT, k["witness"])))
            r = simcommon.run_worlds([w], jobs=1, chunk=1)[0]
            hits = []
            simmon.mon_c07(r, w, hits)
            if hits:
                ctx.known("F42", k["what_fails"])
