"""Shared machinery of every check: fingerprints, translator driver, Coq build,
evaluation of the Gallina model on generated cases, verdicts, evidence.

One instance of `Ctx` lives for one run of `./check Cxx --tier ...`.
"""
import fcntl
import hashlib
import json
import os
import random
import re
import subprocess
import sys
import time

ROOT = os.path.dirname(os.path.dirname(os.path.abspath(__file__)))
REPO = os.environ.get("VERIF_REPO", "/repo")
# the three directories below can be redirected so that a trial run against a scratch copy of /repo
# (tools/run_seeded.py) does not disturb the registered checks' build state, evidence or replays
COQ = os.environ.get("VERIF_COQ", os.path.join(ROOT, "coq"))
BUILD = os.environ.get("VERIF_BUILD", os.path.join(ROOT, "build"))
OUT = os.environ.get("VERIF_OUT", ROOT)
PY = "/venv/bin/python"
COQ_TIMEOUT = int(os.environ.get("VERIF_COQ_TIMEOUT", "900"))

KERNEL_TB = [
    "Coq 8.16.1 kernel (coqc, full .vo build, no -vos/-vok); vm_compute used for "
    "closed witnesses and for evaluating the model on generated cases; no native_compute",
    "axioms: none declared in the development; `Print Assumptions` of every property "
    "theorem is captured on every run and must read `Closed under the global context`",
    "no extraction: the model is evaluated inside Coq (`Eval vm_compute`) on case files "
    "written by the harness; the only trusted glue is the Python rendering of inputs "
    "as Gallina literals and the parser of Coq's printed result",
]


# --------------------------------------------------------------------------
# Gallina literals
# --------------------------------------------------------------------------
def gz(n):
    n = int(n)
    return "(%d)%%Z" % n if n < 0 else "%d%%Z" % n


def gnat(n):
    assert 0 <= n < 5000
    return "%d%%nat" % n


def gbool(b):
    return "true" if b else "false"


def glist(xs):
    return "[" + "; ".join(xs) + "]"


def gopt(x, f=lambda v: v):
    return "None" if x is None else "(Some %s)" % f(x)


def gval(v):
    """Python nested ints/lists/tuples/bools/None -> Gallina `val` literal."""
    if isinstance(v, bool):
        return "(I %s)" % gz(1 if v else 0)
    if isinstance(v, int):
        return "(I %s)" % gz(v)
    if v is None:
        return "(L [])"
    if isinstance(v, (list, tuple)):
        return "(L %s)" % glist([gval(x) for x in v])
    raise TypeError("gval: %r" % (v,))


def norm_val(v):
    """Canonical Python form of a value that went through gval."""
    if isinstance(v, bool):
        return 1 if v else 0
    if isinstance(v, int):
        return v
    if v is None:
        return []
    return [norm_val(x) for x in v]


# --------------------------------------------------------------------------
# Parser of Coq's printed terms (only what `Eval vm_compute` prints for
# val / Z / bool / list / pair / option results)
# --------------------------------------------------------------------------
_TOK = re.compile(r"\s*(\[|\]|\(|\)|;|,|-?\d+|[A-Za-z_][A-Za-z_0-9']*|%[A-Za-z]+|-)")


def parse_coq_term(s):
    toks = []
    pos = 0
    s = s.strip()
    while pos < len(s):
        m = _TOK.match(s, pos)
        if not m:
            raise ValueError("cannot tokenize Coq output at: %r" % s[pos:pos + 40])
        t = m.group(1)
        pos = m.end()
        if t.startswith("%"):
            continue
        toks.append(t)
    i = [0]

    def peek():
        return toks[i[0]] if i[0] < len(toks) else None

    def eat(t=None):
        x = toks[i[0]]
        if t is not None and x != t:
            raise ValueError("expected %s got %s" % (t, x))
        i[0] += 1
        return x

    def atom():
        t = peek()
        if t == "[":
            eat()
            out = []
            if peek() == "]":
                eat()
                return out
            while True:
                out.append(app())
                if peek() == ";":
                    eat()
                    continue
                eat("]")
                return out
        if t == "(":
            eat()
            first = app()
            if peek() == ",":
                items = [first]
                while peek() == ",":
                    eat()
                    items.append(app())
                eat(")")
                return tuple(items)
            eat(")")
            return first
        if t == "-":
            eat()
            return -int(eat())
        if re.match(r"-?\d+$", t):
            eat()
            return int(t)
        eat()
        if t == "true":
            return True
        if t == "false":
            return False
        if t == "None":
            return None
        return ("@", t)

    def app():
        h = atom()
        if isinstance(h, tuple) and len(h) == 2 and h[0] == "@":
            name = h[1]
            args = []
            while peek() not in (None, "]", ")", ";", ","):
                args.append(atom())
            if name == "I" and len(args) == 1:
                return args[0]
            if name == "L" and len(args) == 1:
                return args[0]
            if name == "Some" and len(args) == 1:
                return ("Some", args[0])
            if not args:
                return name
            return (name,) + tuple(args)
        return h

    r = app()
    if i[0] != len(toks):
        raise ValueError("trailing tokens in Coq output: %r" % toks[i[0]:i[0] + 5])
    return r


def eval_results(out):
    """Split coqc stdout into the values printed by successive Eval commands."""
    res = []
    for m in re.finditer(r"^\s*= (.*?)\n\s*: ", out, re.S | re.M):
        res.append(re.sub(r"\s+", " ", m.group(1)))
    return res


# --------------------------------------------------------------------------
def sha256_file(p):
    h = hashlib.sha256()
    with open(p, "rb") as f:
        h.update(f.read())
    return h.hexdigest()


def run_cmd(cmd, timeout=COQ_TIMEOUT, cwd=None, env=None, input=None):
    try:
        p = subprocess.run(cmd, cwd=cwd, env=env, input=input, capture_output=True,
                           text=True, timeout=timeout)
        return p.returncode, p.stdout, p.stderr
    except subprocess.TimeoutExpired as e:
        return 124, (e.stdout or b"").decode() if isinstance(e.stdout, bytes) else (e.stdout or ""), "TIMEOUT after %ss" % timeout


class BuildLock:
    def __enter__(self):
        os.makedirs(BUILD, exist_ok=True)
        self.f = open(os.path.join(BUILD, ".lock"), "w")
        fcntl.flock(self.f, fcntl.LOCK_EX)
        return self

    def __exit__(self, *a):
        fcntl.flock(self.f, fcntl.LOCK_UN)
        self.f.close()


FORBIDDEN = re.compile(
    r"\b(Admitted|admit|Axiom|Axioms|Parameter|Parameters|Conjecture|Conjectures|"
    r"Admit Obligations|bypass_check)\b|Unset Guard|Unset Positivity|Unset Universe Checking|"
    r"type-in-type|impredicative-set")


def strip_coq_comments(txt):
    out = []
    depth = 0
    i = 0
    while i < len(txt):
        if txt.startswith("(*", i):
            depth += 1
            i += 2
        elif txt.startswith("*)", i) and depth:
            depth -= 1
            i += 2
        else:
            if not depth:
                out.append(txt[i])
            i += 1
    return "".join(out)


def dep_closure(rel):
    """Files of the development (relative to coq/) that `rel` transitively Requires."""
    seen = []
    todo = [rel]
    while todo:
        r = todo.pop()
        if r in seen or not os.path.exists(os.path.join(COQ, r)):
            continue
        seen.append(r)
        txt = strip_coq_comments(open(os.path.join(COQ, r)).read())
        for m in re.finditer(r"From\s+Verif\s+Require\s+(?:Import\s+|Export\s+)?(.*?)\.(?:\s|$)", txt, re.S):
            for mod in m.group(1).split():
                todo.append(mod.replace(".", "/") + ".v")
        for m in re.finditer(r"(?<!Verif\s)Require\s+(?:Import\s+|Export\s+)?((?:Verif\.[A-Za-z_0-9.']+\s*)+?)\.(?:\s|$)", txt, re.S):
            for mod in m.group(1).split():
                todo.append(mod[len("Verif."):].replace(".", "/") + ".v")
    return seen


def grep_gate(only=None):
    """No Admitted / Axiom / Parameter / ... in the development (or in the files `only`)."""
    bad = []
    for d, _, fs in os.walk(COQ):
        for f in fs:
            if not f.endswith(".v"):
                continue
            p = os.path.join(d, f)
            if only is not None and os.path.relpath(p, COQ) not in only:
                continue
            txt = strip_coq_comments(open(p).read())
            # `Variable`/`Hypothesis` outside a section
            depth = 0
            for ln, line in enumerate(txt.split("\n"), 1):
                if FORBIDDEN.search(line):
                    bad.append("%s:%d: %s" % (p, ln, line.strip()))
                if re.match(r"\s*Section\b", line):
                    depth += 1
                elif re.match(r"\s*End\b", line) and depth:
                    depth -= 1
                elif re.match(r"\s*(Variable|Variables|Hypothesis|Hypotheses|Context)\b", line) and depth == 0:
                    bad.append("%s:%d: %s (outside a section)" % (p, ln, line.strip()))
    proj = os.path.join(COQ, "_CoqProject")
    if os.path.exists(proj) and re.search(r"type-in-type|impredicative-set|-vos|-vok", open(proj).read()):
        bad.append("_CoqProject passes a forbidden flag")
    return bad


def coq_sources():
    out = []
    for sub in ("Model", "Gen", "Bridge", "Proofs", "Props"):
        d = os.path.join(COQ, sub)
        if os.path.isdir(d):
            for f in sorted(os.listdir(d)):
                if f.endswith(".v"):
                    out.append("%s/%s" % (sub, f))
    return out


def write_if_changed(path, text):
    if os.path.exists(path) and open(path).read() == text:
        return False
    os.makedirs(os.path.dirname(path), exist_ok=True)
    with open(path, "w") as f:
        f.write(text)
    return True


def regen_makefile():
    srcs = coq_sources()
    proj = "-Q . Verif\n-arg -w -arg -notation-overridden,-deprecated-hint-without-locality,-deprecated-instance-without-locality\n" + "\n".join(srcs) + "\n"
    changed = write_if_changed(os.path.join(COQ, "_CoqProject"), proj)
    if changed or not os.path.exists(os.path.join(COQ, "Makefile")):
        rc, o, e = run_cmd(["coq_makefile", "-f", "_CoqProject", "-o", "Makefile"], cwd=COQ)
        if rc != 0:
            raise RuntimeError("coq_makefile failed: " + o + e)


def make(targets, jobs=16):
    """Full .vo build of the given targets (relative to coq/). Returns (ok, log)."""
    regen_makefile()
    cmd = ["timeout", str(COQ_TIMEOUT), "make", "-j%d" % jobs, "-k"] + targets
    rc, o, e = run_cmd(cmd, cwd=COQ, timeout=COQ_TIMEOUT + 30)
    return rc == 0, o + e


def first_coq_error(log):
    m = re.search(r'File "([^"]+)", line (\d+), characters[^\n]*\n(Error:.*?)(?:\n\n|\nmake|\Z)', log, re.S)
    if m:
        return {"file": m.group(1), "line": int(m.group(2)), "error": m.group(3)[:600]}
    if "TIMEOUT" in log or "timeout" in log.lower():
        return {"file": "?", "line": 0, "error": "build timed out"}
    return {"file": "?", "line": 0, "error": log[-600:]}


def theorem_at(relfile, line):
    """Name of the Lemma/Theorem enclosing `line` in a coq source file."""
    p = relfile if os.path.isabs(relfile) else os.path.join(COQ, relfile)
    name = None
    try:
        for ln, l in enumerate(open(p), 1):
            m = re.match(r"\s*(?:Local\s+|Global\s+)?(Lemma|Theorem|Corollary|Example|Fact|Definition|Fixpoint|Instance)\s+([A-Za-z_0-9']+)", l)
            if m:
                name = m.group(2)
            if ln >= line:
                break
    except OSError:
        pass
    return name


class Ctx:
    def __init__(self, pid, tier, seed):
        self.pid = pid
        self.tier = tier
        self.seed = seed
        self.rng = random.Random("%s/%s" % (pid, seed))
        self.t0 = time.time()
        self.work = os.path.join(BUILD, pid)
        os.makedirs(self.work, exist_ok=True)
        self.fingerprints = {}
        self.obligations = []        # names
        self.discharged = []         # names
        self.assumptions_out = {}    # theorem -> Print Assumptions text
        self.broken = []             # dicts describing broken obligations / ties
        self.violations = []         # (replay path, no_input flag)
        self.known_lines = []
        self.cov = {"evaluations": 0, "distinct_nontrivial": 0, "samples": [],
                    "streams": {}, "traces_validated_against_impl": 0}
        self.rules = []
        self.extra_assumptions = []
        self.level = "proof"
        self.coq_evals = 0

    # ---- tie step 1: fingerprints
    def fingerprint(self, relfiles):
        for r in relfiles:
            p = os.path.join(REPO, r)
            self.fingerprints[r] = sha256_file(p) if os.path.exists(p) else "MISSING"

    # ---- tie step 2: translator
    def translate(self, names=None):
        """Regenerate coq/Gen/Src_*.v from /repo. Returns list of failures."""
        sys.path.insert(0, os.path.join(ROOT, "translator"))
        import py2v
        fails = []
        with BuildLock():
            for name, fn in py2v.FRAGMENTS.items():
                if names is not None and name not in names:
                    continue
                target = os.path.join(COQ, "Gen", "Src_%s.v" % name)
                try:
                    text = fn(REPO)
                    write_if_changed(target, text)
                except py2v.TranslateError as e:
                    fails.append({"fragment": name, "error": str(e)})
                    # fail closed: a file that cannot compile, so nothing downstream can
                    # silently reuse a stale translation
                    write_if_changed(target, "(* translator failed: %s *)\nDefinition translator_failed : True := I I.\n" % str(e).replace("*)", "* )"))
        for f in fails:
            self.broken.append({"kind": "translator", "name": "Src_%s" % f["fragment"], "detail": f["error"]})
        return fails

    # ---- tie step 3: build and proof obligations
    def build(self, props_file, deps=None):
        """Build everything `Props/<props_file>.v` depends on, then compile the property
        file itself (always, to capture Print Assumptions).  Records obligations."""
        rel = "Props/%s.v" % props_file
        src = open(os.path.join(COQ, rel)).read()
        body = strip_coq_comments(src)
        thms = re.findall(r"^\s*Theorem\s+([A-Za-z_0-9']+)", body, re.M)
        self.obligations += thms
        bad = grep_gate(only=dep_closure(rel))
        if bad:
            self.broken.append({"kind": "gate", "name": "forbidden-construct", "detail": "; ".join(bad[:5])})
            return False
        with BuildLock():
            vo = rel + "o"
            try:
                os.remove(os.path.join(COQ, vo))
            except OSError:
                pass
            ok, log = make([vo] + [d + "o" if d.endswith(".v") else d for d in (deps or [])])
        open(os.path.join(self.work, "make.log"), "w").write(log)
        if not ok:
            err = first_coq_error(log)
            thm = theorem_at(err["file"], err["line"]) if err["file"] != "?" else None
            self.broken.append({"kind": "proof", "name": "%s:%s" % (err["file"], thm or "?"),
                                "detail": "line %s: %s" % (err["line"], err["error"])})
            return False
        # Print Assumptions output: "<thm>\nClosed under the global context" blocks
        blocks = re.findall(r"(Closed under the global context|Axioms:\n(?:.+\n?)+?)(?=\n\S|\Z)", log)
        closed = log.count("Closed under the global context")
        n_pa = len(re.findall(r"^\s*Print Assumptions\s+([A-Za-z_0-9']+)", body, re.M))
        pa_names = re.findall(r"^\s*Print Assumptions\s+([A-Za-z_0-9']+)", body, re.M)
        missing = [t for t in thms if t not in pa_names]
        if missing:
            self.broken.append({"kind": "gate", "name": "no-Print-Assumptions", "detail": ",".join(missing)})
            return False
        if "Axioms:" in log or closed < n_pa:
            self.broken.append({"kind": "assumptions", "name": props_file,
                                "detail": "Print Assumptions reported axioms or fewer closed results than theorems: " + log[-800:]})
            return False
        for t in thms:
            self.assumptions_out[t] = "Closed under the global context"
        self.discharged += thms
        return True

    # ---- model evaluation inside Coq
    def coq_eval(self, name, text, timeout=600):
        """Compile a generated file against the built development; returns (ok, stdout+stderr)."""
        name = re.sub(r"[^A-Za-z0-9_]", "_", name)
        p = os.path.join(self.work, name + ".v")
        with open(p, "w") as f:
            f.write(text)
        self.coq_evals += 1
        rc, o, e = run_cmd(["timeout", str(timeout), "coqc", "-Q", COQ, "Verif", "-w", "-all", p],
                           cwd=self.work, timeout=timeout + 20)
        return rc == 0, o + e

    def coq_eval_many(self, items, timeout=600, jobs=16):
        """items: list of (name, text); compiled in parallel. Returns {name: (ok, out)}."""
        from concurrent.futures import ThreadPoolExecutor
        with ThreadPoolExecutor(max_workers=jobs) as ex:
            futs = {n: ex.submit(self.coq_eval, n, t, timeout) for n, t in items}
            return {n: f.result() for n, f in futs.items()}

    def model_stream(self, stream, header, in_type, fn, cases, shard=400):
        """Differential check of one stream.

        cases: list of (gallina_input_text, expected_python_val, printable_case)
        fn:    Gallina term of type  in_type -> val
        Returns list of (case_index, model_val) for the disagreements.
        """
        items = []
        for s in range(0, len(cases), shard):
            chunk = cases[s:s + shard]
            body = ";\n  ".join("(%s, %s)" % (c[0], gval(c[1])) for c in chunk)
            text = ("From Coq Require Import ZArith List String.\nImport ListNotations.\n"
                    "From Verif Require Import Model.Val.\n%s\nOpen Scope Z_scope.\n"
                    "Definition cases : list ((%s) * val) := [\n  %s\n].\n"
                    "Definition the_fn : (%s) -> val := %s.\n"
                    "Eval vm_compute in (mismatches the_fn cases 0%%Z).\n"
                    % (header, in_type, body, in_type, fn))
            items.append(("%s_%04d" % (stream, s // shard), text))
        res = self.coq_eval_many(items)
        mism = []
        for k, (name, _) in enumerate(items):
            ok, out = res[name]
            if not ok:
                raise ModelEvalError(name, out)
            vals = eval_results(out)
            if not vals:
                raise ModelEvalError(name, out)
            for idx, mv in parse_coq_term(vals[-1]):
                mism.append((k * shard + idx, mv))
        st = self.cov["streams"].setdefault(stream, {"cases": 0, "disagreements": 0})
        st["cases"] += len(cases)
        st["disagreements"] += len(mism)
        self.cov["evaluations"] += len(cases)
        self.cov["traces_validated_against_impl"] += len(cases)
        return mism

    def monitor_stream(self, stream, header, in_type, fn, cases, shard=400):
        """Apply a Gallina boolean monitor `fn : in_type -> bool` to observations.
        cases: list of gallina_input_text. Returns indices where the monitor is false."""
        items = []
        for s in range(0, len(cases), shard):
            chunk = cases[s:s + shard]
            text = ("From Coq Require Import ZArith List String.\nImport ListNotations.\n"
                    "From Verif Require Import Model.Val.\n%s\nOpen Scope Z_scope.\n"
                    "Definition cases : list (%s) := [\n  %s\n].\n"
                    "Definition the_fn : (%s) -> bool := %s.\n"
                    "Eval vm_compute in (failing the_fn cases 0%%Z).\n"
                    % (header, in_type, ";\n  ".join(chunk), in_type, fn))
            items.append(("%s_mon_%04d" % (stream, s // shard), text))
        res = self.coq_eval_many(items)
        bad = []
        for k, (name, _) in enumerate(items):
            ok, out = res[name]
            if not ok:
                raise ModelEvalError(name, out)
            vals = eval_results(out)
            for idx in parse_coq_term(vals[-1]):
                bad.append(k * shard + idx)
        st = self.cov["streams"].setdefault(stream + ":monitor", {"cases": 0, "failing": 0})
        st["cases"] += len(cases)
        st["failing"] += len(bad)
        return bad

    # ---- verdicts
    def replay_path(self, tag):
        os.makedirs(os.path.join(OUT, "replays"), exist_ok=True)
        return os.path.join(OUT, "replays", "%s_%s_%s.json" % (self.pid, tag, self.seed))

    def violation(self, tag, replay, no_input=False):
        path = self.replay_path(tag)
        replay = dict(replay)
        replay.update({"property": self.pid, "seed": self.seed, "tier": self.tier,
                       "no_failing_input_found": bool(no_input)})
        with open(path, "w") as f:
            json.dump(replay, f, indent=1, default=str)
        self.violations.append((path, no_input))

    def known(self, fid, what):
        """A finding replayed by the check and seen to fail still.  Only a finding LISTED in the committed registry
        known_findings.json (status `known`, same property and id) is reported as KNOWN-FINDING; anything else is a
        violation the file does not list.  The registry is read, never written, at run time."""
        try:
            reg = json.load(open(os.path.join(ROOT, "known_findings.json")))
        except (OSError, ValueError):
            reg = []
        base = self.pid.split("_")[0]
        listed = any(k.get("status") == "known" and k.get("id") == fid and k.get("property", "").split("_")[0] == base
                     for k in reg)
        if listed:
            self.known_lines.append("KNOWN-FINDING: property=%s %s %s" % (self.pid, fid, what))
        else:
            self.violation("unlisted_%s" % re.sub(r"[^A-Za-z0-9]", "_", str(fid)),
                           {"what": "a finding the check replays and sees failing is not listed in known_findings.json",
                            "id": fid, "finding": what})

    def sample(self, x):
        if len(self.cov["samples"]) < 6:
            self.cov["samples"].append(x)

    # ---- evidence + exit
    def finish(self, trusted_extra=(), explanation=None):
        if self.broken and not self.violations:
            # a broken obligation/tie with no concrete failing input found
            self.violation("broken", {"broken_obligation": self.broken,
                                      "note": "a proof obligation, bridge lemma, translator fragment or "
                                              "correspondence stream no longer checks and the search found "
                                              "no concrete input on which the property fails"}, no_input=True)
        cov = self.cov
        cov["obligations"] = len(self.obligations)
        cov["discharged"] = len(self.discharged)
        if not self.discharged:      # schema: proof-level keys need >= 1; fall back to the exploration keys
            cov["obligations_attempted"] = cov.pop("obligations")
            cov.pop("discharged")
        cov["obligation_names"] = self.obligations
        cov["print_assumptions"] = self.assumptions_out
        cov["checker_cmd"] = ("cd /verif/coq && coq_makefile -f _CoqProject -o Makefile && make -j16 "
                              "Props/%s.vo   (full .vo build; Gen/ regenerated from /repo first)" % self.pid)
        cov["trusted_base"] = KERNEL_TB + list(trusted_extra)
        cov["rule"] = " | ".join(self.rules)
        cov["source_fingerprints"] = self.fingerprints
        cov["broken"] = self.broken
        cov["known_findings_replayed"] = self.known_lines
        cov["coq_eval_files"] = self.coq_evals
        if explanation:
            cov["explanation"] = explanation
        ev = {"property_id": self.pid, "tier": self.tier, "seed": self.seed, "level": self.level,
              "coverage": cov, "assumptions": self.extra_assumptions + list(trusted_extra),
              "wall_s": round(time.time() - self.t0, 2), "violations": len(self.violations)}
        os.makedirs(os.path.join(OUT, "evidence"), exist_ok=True)
        with open(os.path.join(OUT, "evidence", "%s.json" % self.pid), "w") as f:
            json.dump(ev, f, indent=1, default=str)
        for l in self.known_lines:
            print(l)
        for path, no_input in self.violations:
            print("VIOLATION property=%s replay=%s%s" % (self.pid, path, " no-failing-input-found" if no_input else ""))
        sys.stdout.flush()
        return 1 if self.violations else 0


class ModelEvalError(Exception):
    def __init__(self, name, out):
        super().__init__("model evaluation of %s failed:\n%s" % (name, out[-1500:]))
        self.name = name
        self.out = out


def load_known():
    p = os.path.join(ROOT, "known_findings.json")
    return json.load(open(p)) if os.path.exists(p) else []


# --------------------------------------------------------------------------
# Running /repo code in a subprocess (fresh interpreter, PYTHONPATH=/repo)
# --------------------------------------------------------------------------
def run_impl(script, payload, timeout=600, hashseed="0", extra_env=None):
    """Run harness/impl/<script> under /venv python with /repo on the path.
    payload (JSON) on stdin, JSON on stdout."""
    env = dict(os.environ)
    env["PYTHONPATH"] = REPO + os.pathsep + os.path.join(ROOT, "harness")
    env["PYTHONHASHSEED"] = hashseed
    env["ERDOS_SIM_VERIF"] = "1"
    if extra_env:
        env.update(extra_env)
    rc, o, e = run_cmd([PY, os.path.join(ROOT, "harness", "impl", script)], input=json.dumps(payload),
                       timeout=timeout, env=env, cwd=BUILD)
    if rc != 0:
        raise RuntimeError("implementation adapter %s failed (rc=%s):\n%s" % (script, rc, e[-3000:]))
    return json.loads(o)
