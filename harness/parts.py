"""Aggregation of multi-part properties (C10 C11 C12 C14): each part is a module harness/props/cxx_<part>.py exposing
run(ctx); the parts run one after the other on the same Ctx, so obligations, streams and verdicts accumulate."""
import importlib
import os
import traceback


def run_parts(ctx, pid, parts):
    here = os.path.join(os.path.dirname(os.path.abspath(__file__)), "props")
    ran = []
    trusted = []
    for p in parts:
        name = "%s_%s" % (pid.lower(), p)
        if not os.path.exists(os.path.join(here, name + ".py")):
            continue
        mod = importlib.import_module("props." + name)
        n0 = len(ctx.obligations)
        try:
            mod.run(ctx)
        except Exception as e:      # a failing part is a broken obligation of the whole property, never a silent pass
            traceback.print_exc()
            ctx.broken.append({"kind": "machinery", "name": "part %s: %s" % (name, type(e).__name__), "detail": str(e)[-1500:]})
        ran.append({"part": p, "obligations": len(ctx.obligations) - n0})
        trusted += list(getattr(mod, "TRUSTED", ()))
    ctx.cov["parts"] = ran
    ctx.extra_assumptions += trusted
    if not ran:
        ctx.broken.append({"kind": "machinery", "name": "no part of %s is present" % pid, "detail": ""})
    return ran
