"""Monitors over the IMPLEMENTATION's call log of one simulation (harness/impl/sim.py), independent of
the abstract machine: each returns a list of human-readable failures (empty = the clause held on
this run).  They use only documented facts (the lifecycle edge table, "demand = sum of requests"),
never the regenerated model, so that a changed source cannot drag the reference along."""

LEGAL = {("VIRTUAL", "RELEASED"), ("VIRTUAL", "SCHEDULED"), ("RELEASED", "SCHEDULED"), ("SCHEDULED", "VIRTUAL"),
         ("SCHEDULED", "RELEASED"), ("SCHEDULED", "RUNNING"), ("RUNNING", "COMPLETED"), ("RUNNING", "EVICTED"),
         ("RUNNING", "PREEMPTED"), ("PREEMPTED", "RUNNING"), ("PREEMPTED", "SCHEDULED"), ("PREEMPTED", "EVICTED"),
         ("PREEMPTED", "COMPLETED"), ("VIRTUAL", "CANCELLED"), ("RELEASED", "CANCELLED"), ("SCHEDULED", "CANCELLED")}
FINAL = {"COMPLETED", "CANCELLED", "EVICTED"}


DOC_PRIO = ["SIMULATOR_START", "TASK_CANCEL", "EVICT_PROFILE", "TASK_FINISHED", "TASK_GRAPH_RELEASE", "TASK_RELEASE",
            "UPDATE_WORKLOAD", "TASK_PREEMPT", "TASK_MIGRATION", "LOAD_PROFILE", "TASK_PLACEMENT", "SCHEDULER_START",
            "SCHEDULER_FINISHED", "SIMULATOR_END", "LOG_UTILIZATION"]


def ev_key(time, ty, task):
    """the documented ordering key of an event: time, type priority, task name (only within one type)"""
    return (time, DOC_PRIO.index(ty), task or "")


F37_PLANNERS = ("TetriSched_Gurobi", "TetriSched_CPLEX", "ILP", "Z3")


def graph_info(run):
    info = {}
    for e in run["log"]:
        if e[0] == "graph":
            for t in e[1]["tasks"]:
                info[t["name"]] = t
    return info


def agg(desc):
    out = {}
    for (n, _id, q) in desc:
        out[n] = out.get(n, 0) + q
    return out


def mon_c01(run, world=None):
    bad = []
    # loaded / pending work profiles hold resources too (Clockwork): then only the capacity bound is checked here,
    # the exact ledger equality is C04's
    has_profiles = bool(world) and any("loading_strategies" in p for p in world["workload"]["profiles"])
    # the capacity enforced must be the capacity CONFIGURED in the cluster description
    if world:
        conf = {}
        for p in world["workers"]:
            for w in p["workers"]:
                tot = {}
                for r in w["resources"]:
                    n = r["name"].split(":")[0]
                    tot[n] = tot.get(n, 0) + r["quantity"]
                conf[w["name"]] = tot
        for e in run["log"]:
            if e[0] == "cluster":
                for pool in e[1]:
                    for (wname, res) in pool[2]:
                        tot = {}
                        for (rn, _i, q) in res:
                            tot[rn] = tot.get(rn, 0) + q
                        if wname in conf and tot != conf[wname]:
                            bad.append("worker %s was built with resources %s, the cluster description configures %s"
                                       % (wname, tot, conf[wname]))
    resident = {}          # task -> (worker, request by name)
    for e in run["log"]:
        if e[0] != "worker" or e[5] != "ok":
            continue
        op, w, t = e[1], e[2], e[3]
        if op == "place":
            if e[4][2] != 1:
                return bad         # batches: demand counted once per batch, covered by the ledger check (C04)
            if t in resident:
                bad.append("task %s placed on %s while still resident on %s" % (t, w, resident[t][0]))
            resident[t] = (w, agg(e[4][1]))
        elif op == "remove":
            resident.pop(t, None)
        demand = {}
        for (tw, req) in resident.values():
            if tw == w:
                for n, q in req.items():
                    demand[n] = demand.get(n, 0) + q
        for (name, alloc, total) in e[6]:
            if alloc > total or alloc < 0:
                bad.append("worker %s: allocated %s of %s %s after %s %s" % (w, alloc, total, name, op, t))
            if demand.get(name, 0) > total:
                bad.append("worker %s: resident tasks demand %s %s, capacity %s" % (w, demand.get(name, 0), name, total))
            if demand.get(name, 0) != alloc and not has_profiles:
                bad.append("worker %s: ledger says %s %s allocated, resident strategies demand %s (after %s %s)"
                           % (w, alloc, name, demand.get(name, 0), op, t))
    return bad


def mon_c02(run):
    bad = []
    info = graph_info(run)
    fin = {}
    starts = {}
    finishes = {}
    cancelled = set()
    for e in run["log"]:
        if e[0] == "notify":
            cancelled.update(e[4])
        if e[0] != "task" or e[5] == "ERR":
            continue
        op, t, tm = e[1], e[2], e[3]
        if op == "cancel":
            cancelled.add(t)
        if op == "release" and e[4] == "VIRTUAL":
            ti = info.get(t)
            if ti is not None and ti["release"] is not None and ti["release"] >= 0 and tm is not None and tm < ti["release"]:
                bad.append("task %s was released at %s, before the release time %s it was created with" % (t, tm, ti["release"]))
        if op == "finish":
            finishes[t] = finishes.get(t, 0) + 1
            fin[t] = e[6][0]
            if finishes[t] > 1:
                bad.append("task %s completed twice" % t)
        elif op == "start":
            starts[t] = starts.get(t, 0) + 1
            if starts[t] > 1:
                bad.append("task %s started twice (no preemption in this run)" % t)
            rel = e[6][2]
            if rel is None or rel < 0:
                bad.append("task %s started at %s although it was never released" % (t, tm))
            elif tm < rel:
                bad.append("task %s started at %s before its release time %s" % (t, tm, rel))
            ti = info.get(t)
            if ti is not None and ti["release"] is not None and ti["release"] >= 0 and tm < ti["release"]:
                bad.append("task %s started at %s before the release time %s its graph was created with" % (t, tm, ti["release"]))
            if ti is None:
                bad.append("task %s started but belongs to no announced graph" % t)
                continue
            done = [p for p in ti["parents"] if p in fin and fin[p] <= tm]
            if ti["terminal"]:
                if ti["parents"] and not done:
                    bad.append("terminal task %s started at %s before any parent completed" % (t, tm))
                # the join of a conditional waits for the branch that was taken: besides the conditional itself (a direct
                # edge), some parent must have completed unless every such parent was cancelled
                plain = [p for p in ti["parents"] if p in info and not info[p]["conditional"]]
                if plain and not any(p in done for p in plain) and not all(p in cancelled for p in plain):
                    bad.append("join %s started at %s although none of its branch parents %s has completed (and not all are cancelled)"
                               % (t, tm, plain))
            elif len(done) != len(ti["parents"]):
                missing = [p for p in ti["parents"] if p not in done]
                bad.append("task %s started at %s before its predecessors %s completed" % (t, tm, missing))
    return bad


def mon_c03(run, variance):
    bad = []
    clock = 0
    sched = {}
    started = {}
    in_handler = None
    handler_pool_refused = False
    first_try = {}
    info = graph_info(run)
    fin = {}
    tried = {}
    wnames = {}
    named = {}
    placed_on = {}
    log = run["log"]
    for i, e in enumerate(log):
        k = e[0]
        if k == "cluster":
            wnames = e[2] if len(e) > 2 else {}
        elif k == "decisions":
            for d in e[2]:
                if d[0] == "PLACE_TASK" and d[3] is not None:
                    named[d[1]] = d[4]
                elif d[0] in ("PLACE_TASK", "CANCEL_TASK"):
                    named.pop(d[1], None)
        elif k == "worker" and e[1] == "place" and e[5] == "ok":
            placed_on[e[3]] = e[2]
        if k == "step":
            if e[1] != clock:
                bad.append("clock jumped from %s to %s between steps" % (clock, e[1]))
            if e[2] < 0:
                bad.append("negative clock step %s at %s" % (e[2], e[1]))
            if e[3] is not None and e[1] + e[2] > e[3]:
                bad.append("clock stepped to %s past the next pending event at %s" % (e[1] + e[2], e[3]))
            for (t, rem, stt) in e[4]:
                if e[2] > rem >= 0:
                    bad.append("clock stepped by %s although task %s had only %s left" % (e[2], t, rem))
            clock = e[1] + e[2]
        elif k == "handle":
            if e[1] != clock or e[4] != clock:
                bad.append("event %s for %s with time %s handled at clock %s" % (e[2], e[3], e[1], clock))
            in_handler = (e[2], e[3], e[1])
            # events take effect in key order: nothing still pending at this moment precedes the event being handled
            k0 = ev_key(e[1], e[2], e[3])
            for (pt, pty, ptask) in e[5]:
                kp = ev_key(pt, pty, ptask)
                if kp[:2] < k0[:2] or (kp[:2] == k0[:2] and ptask and e[3] and kp < k0):
                    bad.append("event %s(%s)@%s handled while %s(%s)@%s, which precedes it, was pending"
                               % (e[2], e[3], e[1], pty, ptask, pt))
                    break
            handler_pool_refused = False
            if e[2] == "TASK_PLACEMENT":
                tried.setdefault(e[3], []).append(e[1])
        elif k == "pool" and e[1] == "place" and not e[4]:
            handler_pool_refused = True
        elif k == "handled":
            if in_handler and in_handler[0] == "TASK_PLACEMENT":
                t = in_handler[1]
                if t not in started and t in sched:
                    ti = info.get(t, {"parents": [], "terminal": False})
                    done = [p for p in ti["parents"] if p in fin]
                    if ti["terminal"]:
                        # a join is ready when the branch that was taken completed: some parent is done and every other
                        # parent is done or cancelled
                        gone = {x[2] for x in log[:i] if x[0] == "task" and x[1] == "cancel" and x[5] != "ERR"}
                        ready = (bool(done) and all(p in fin or p in gone for p in ti["parents"])) or not ti["parents"]
                    else:
                        ready = len(done) == len(ti["parents"])
                    cancelled = any(x[0] == "task" and x[1] == "cancel" and x[2] == t and x[5] != "ERR" for x in log[:i])
                    if ready and not handler_pool_refused and not cancelled:
                        bad.append("task %s was ready at %s and its pool did not refuse it, yet it was not started" % (t, in_handler[2]))
            in_handler = None
        elif k == "task" and e[5] != "ERR":
            op, t, tm = e[1], e[2], e[3]
            if op == "schedule":
                sched[t] = (e[6][0], e[6][3])
                tried[t] = []            # attempts are counted from the latest (re-)schedule
            elif op == "start":
                drawn = e[6][0]
                started[t] = (tm, drawn)
                if named.get(t) is not None and named[t] in wnames and placed_on.get(t) not in (None, wnames[named[t]]):
                    bad.append("task %s started on worker %s although the latest decision of its scheduler names worker %s"
                               % (t, placed_on.get(t), wnames[named[t]]))
                if t in sched:
                    ptime, rt = sched[t]
                    if ptime is not None and tm < ptime:
                        bad.append("task %s started at %s, earlier than the time %s its scheduler chose" % (t, tm, ptime))
                    if rt is not None and not (rt <= drawn and 100 * drawn <= 100 * rt + rt * variance + 50):
                        bad.append("task %s: drawn runtime %s outside [%s, %s*(1+%s%%)]" % (t, drawn, rt, rt, variance))
                    if tried.get(t) and ptime is not None and tried[t][0] != ptime and tried[t][0] < ptime:
                        bad.append("placement of %s attempted at %s before the chosen time %s" % (t, tried[t][0], ptime))
            elif op == "finish":
                fin[t] = e[6][0]
                if t in started:
                    s, d = started[t]
                    if e[6][0] != s + d:
                        bad.append("task %s started at %s with runtime %s but completed at %s" % (t, s, d, e[6][0]))
                    if clock != s + d:
                        bad.append("task %s (start %s, runtime %s) was finished at clock %s" % (t, s, d, clock))
        elif k == "worker" and e[1] == "remove" and e[5] == "ok":
            t = e[3]
            if t in started and clock != started[t][0] + started[t][1]:
                bad.append("task %s released its worker at %s, not at start+runtime=%s" % (t, clock, started[t][0] + started[t][1]))
    return bad


def mon_c06(run, ftg3_out=None):
    bad = []
    state = {}
    info = graph_info(run)
    cancelled_at = {}
    sched_from = {}
    log = run["log"]
    for i, e in enumerate(log):
        k = e[0]
        if k == "graph":
            for t in e[1]["tasks"]:
                state[t["name"]] = t["state"]
        elif k == "task":
            op, t, before, after = e[1], e[2], e[4], e[5]
            if after == "ERR":
                continue
            if t in state and state[t] != before:
                bad.append("task %s was %s, operation %s saw it as %s" % (t, state[t], op, before))
            if before != after and (before, after) not in LEGAL:
                bad.append("task %s moved %s -> %s by %s, not an edge of the lifecycle" % (t, before, after, op))
            if before in FINAL and after != before:
                bad.append("task %s left the final state %s" % (t, before))
            if op == "schedule" and before != "SCHEDULED":
                sched_from[t] = before
            if op == "unschedule" and t in sched_from and after != sched_from[t]:
                bad.append("task %s was scheduled from %s but is %s after its plan was skipped or retracted: it must fall back "
                           "to its EARLIER state" % (t, sched_from[t], after))
            if op == "unschedule" and after not in ("VIRTUAL", "RELEASED"):
                bad.append("task %s is %s after its plan was skipped or retracted (unschedule), not back in its earlier "
                           "state VIRTUAL/RELEASED" % (t, after))
            if op == "cancel" and before not in ("VIRTUAL", "RELEASED", "SCHEDULED"):
                bad.append("task %s cancelled from %s" % (t, before))
            if op == "start" and t in cancelled_at:
                bad.append("cancelled task %s started" % t)
            if op == "start" and info.get(t, {}).get("terminal"):
                # a join can no longer receive its inputs once every branch leading to it is cancelled (the conditional
                # itself, when it has a direct edge to the join, is not a branch)
                plain = [p for p in info[t]["parents"] if p in info and not info[p]["conditional"]]
                if plain and all(state.get(p) == "CANCELLED" for p in plain):
                    msg = ("join %s started although every branch leading to it (%s) is cancelled" % (t, plain))
                    if ftg3_out is not None and len(plain) < len(info[t]["parents"]):
                        ftg3_out.append(msg)      # known finding FTG3 (signature: the conditional has a direct edge to the join)
                    else:
                        bad.append(msg)
            if op == "cancel":
                cancelled_at[t] = e[3]
            state[t] = after
        elif k == "handled" and e[1] == "TASK_CANCEL":
            # the handler of TASK_CANCEL for t must have dropped t's pending placement
            j = i - 1
            while j >= 0 and log[j][0] != "handle":
                j -= 1
            t = log[j][3]
            if t in e[3]:
                bad.append("task %s was cancelled but its pending placement event is still queued" % t)
        elif k == "tgcancel":
            # closure: every non-terminal child of a cancelled task is cancelled, a terminal child when all its parents are
            for t in e[3]:
                for c in info.get(t, {}).get("children", []):
                    ci = info.get(c)
                    if ci is None:
                        continue
                    if not ci["terminal"] and state.get(c) not in ("CANCELLED",) and c not in e[3]:
                        if state.get(c) in ("VIRTUAL", "RELEASED", "SCHEDULED"):
                            bad.append("task %s was cancelled but its child %s stays %s" % (t, c, state.get(c)))
    # cancellation is closed downstream (at the end of the run): a regular child of a cancelled task is cancelled,
    # a terminal child is cancelled when all its parents are
    if run["status"] == "ended":
        for t, ti in info.items():
            if state.get(t) != "CANCELLED":
                continue
            for c in ti["children"]:
                ci = info.get(c)
                if ci is None or state.get(c) == "CANCELLED":
                    continue
                if not ci["terminal"]:
                    bad.append("task %s is cancelled but its child %s ended the run %s" % (t, c, state.get(c)))
                elif all(state.get(p) == "CANCELLED" for p in ci["parents"]):
                    bad.append("every parent of the join %s is cancelled but it ended the run %s" % (c, state.get(c)))
    # a graph is reported finished exactly when all its sinks completed
    sinks = {}
    for t, ti in info.items():
        g = t.split("@", 1)[1]
        if not ti["children"]:
            sinks.setdefault(g, []).append(t)
    reported = set()
    for r in run["rows"]:
        f = r.split(",")
        if len(f) > 2 and f[1] == "TASK_GRAPH_FINISHED":
            reported.add(f[2])
    if run["status"] == "ended":
        for g, ss in sinks.items():
            all_done = all(state.get(s) == "COMPLETED" for s in ss)
            if all_done and g not in reported:
                bad.append("all sinks of %s completed but no TASK_GRAPH_FINISHED row" % g)
            if g in reported and not all_done:
                bad.append("TASK_GRAPH_FINISHED reported for %s although a sink did not complete" % g)
    return bad


def mon_c07(run, world, f42_out=None):
    """conditional branches in whole simulations: exactly one child of a completed conditional goes on, the others are
    cancelled up to the join; with resolution at submission the resolved branch is the one that runs"""
    bad = []
    info = graph_info(run)
    state = {}
    released = {}
    log = run["log"]
    resolved = bool(world["flags"].get("resolve_conditionals_at_submission"))
    for e in log:
        if e[0] == "graph":
            for t in e[1]["tasks"]:
                state[t["name"]] = t["state"]
            if resolved:
                # every conditional that can be reached (non-zero probability) has exactly one child resolved to 1
                for t in e[1]["tasks"]:
                    if t["conditional"] and t["prob"] > 0:
                        ps = [info[c]["prob"] for c in t["children"] if c in info]
                        if ps and sorted(ps) != [0.0] * (len(ps) - 1) + [1.0]:
                            bad.append("resolution at submission left conditional %s with child probabilities %s" % (t["name"], ps))
        elif e[0] == "task" and e[5] != "ERR":
            state[e[2]] = e[5]
        elif e[0] == "notify":
            t = e[1]
            ti = info.get(t)
            if ti is None or not ti["conditional"]:
                continue
            rel, canc = e[3], e[4]
            kids = ti["children"]
            live = [c for c in kids if info[c]["prob"] > 0 and state.get(c) != "CANCELLED"] if all(c in info for c in kids) else kids
            if len(rel) > 1:
                bad.append("conditional %s released %d children: %s" % (t, len(rel), rel))
            if len(rel) == 1:
                c = rel[0]
                if c not in kids:
                    bad.append("conditional %s released %s, not one of its children" % (t, c))
                elif resolved and info[c]["prob"] != 1.0:
                    bad.append("conditional %s released %s although submission resolved another branch" % (t, c))
                elif c in canc:
                    bad.append("conditional %s released and cancelled the same child %s" % (t, c))
                for o in kids:
                    if o != c and o not in canc and state.get(o) not in ("CANCELLED",):
                        oi = info.get(o, {})
                        if oi.get("terminal") and any(p != t and state.get(p) != "CANCELLED" for p in oi.get("parents", [])):
                            continue      # the join itself, reached by a direct edge: it stays for the branch that was taken
                        bad.append("conditional %s took %s but its sibling %s was not cancelled (state %s)" % (t, c, o, state.get(o)))
            if len(rel) == 0 and live:
                bad.append("conditional %s completed without releasing any of its runnable children %s" % (t, live))
            for x in canc:
                state[x] = "CANCELLED"
    # the branch that was taken goes on: in a run that ended BEFORE its loop timeout, the child a conditional released is
    # not left waiting (RELEASED / SCHEDULED) although its graph was not cancelled by a policy
    end_t = None
    for e in log:
        if e[0] == "handle" and e[2] == "SIMULATOR_END":
            end_t = e[1]
    if run["status"] == "ended" and end_t is not None and end_t < world["flags"].get("loop_timeout", 0):
        for e in log:
            if e[0] == "notify" and info.get(e[1], {}).get("conditional") and len(e[3]) == 1:
                c = e[3][0]
                if state.get(c) in ("RELEASED", "SCHEDULED", "VIRTUAL"):
                    bad.append("conditional %s took %s, which is still %s at the end of a run that ended at %s, before its "
                               "loop timeout" % (e[1], c, state.get(c), end_t))
    # nothing but untaken branches is cancelled when no policy cancels: a cancelled task has a cancelled (or conditional)
    # parent; a join (terminal task) is cancelled only when every parent that is not a conditional is — in particular a
    # join whose taken branch completed must not have been cancelled by the untaken one
    f = world["flags"]
    fz = world.get("fuzz")
    cancelling = bool(f.get("enforce_deadlines")) or bool(f.get("drop_skipped_tasks")) or (fz and fz.get("p_cancel", 0) > 0) \
        or (not fz and f.get("scheduler") not in ("EDF", "FIFO", "LSF"))
    if not cancelling and run["status"] == "ended":
        for t, ti in info.items():
            if state.get(t) != "CANCELLED":
                continue
            ps = [p for p in ti["parents"] if p in info]
            if len(ps) != len(ti["parents"]):
                continue
            plain = [p for p in ps if not info[p]["conditional"]]
            if ti["terminal"]:
                alive = [p for p in plain if state.get(p) != "CANCELLED"]
                if alive:
                    msg = ("join %s is CANCELLED although its parent(s) %s are %s (no policy cancels in this run)"
                           % (t, alive, [state.get(p) for p in alive]))
                    if f42_out is not None and world.get("known_finding") == "F42":
                        f42_out.append(msg)
                    else:
                        bad.append(msg)
            elif not any(state.get(p) == "CANCELLED" for p in ps) and not any(info[p]["conditional"] for p in ps):
                bad.append("task %s is CANCELLED although none of its parents is cancelled or conditional and no policy "
                           "cancels in this run" % t)
    return bad


def mon_c18(run, world, f36_out=None, f38_out=None):
    """the scheduling frontier as the policies saw it during whole simulations"""
    bad = []
    f36 = f36_out if f36_out is not None else []
    f38 = f38_out if f38_out is not None else []
    info = graph_info(run)
    state = {}
    rel_time = {}
    fin = set()
    preempt = bool(world["flags"].get("preemption"))
    for e in run["log"]:
        k = e[0]
        if k == "graph":
            for t in e[1]["tasks"]:
                state[t["name"]] = t["state"]
        elif k == "task" and e[5] != "ERR":
            state[e[2]] = e[5]
            if e[1] == "release":
                rel_time[e[2]] = e[6][0]
            if e[1] == "finish":
                fin.add(e[2])
        elif k in ("tgcancel",):
            for x in e[3]:
                state[x] = "CANCELLED"
        elif k == "notify":
            for x in e[4]:
                state[x] = "CANCELLED"
        elif k == "offer":
            now, lookahead, pre, retract, rtg, offered = e[1], e[2], e[3], e[4], e[5], e[6]
            names = [o[0] for o in offered]
            if len(set(names)) != len(names) and not pre:
                bad.append("a task is offered twice at %s: %s" % (now, names))
            for (n, stt) in offered:
                if stt in ("COMPLETED", "CANCELLED", "EVICTED"):
                    bad.append("%s task %s offered to the policy at %s" % (stt, n, now))
                if stt == "SCHEDULED" and not retract:
                    bad.append("SCHEDULED task %s offered at %s although retraction is off" % (n, now))
                if stt == "RUNNING" and not pre:
                    bad.append("RUNNING task %s offered at %s although preemption is off" % (n, now))
                if stt == "VIRTUAL" and lookahead == 0 and not rtg and not retract:
                    ti = info.get(n)
                    if ti and ti["parents"]:
                        done = [p for p in ti["parents"] if p in fin]
                        ok = bool(done) if ti["terminal"] else len(done) == len(ti["parents"])
                        # known finding F36: a parent that is SCHEDULED with a placement being retried has a completion
                        # estimate in the past, and its child is offered although the parent has not started
                        # known finding F38: an ancestor that is a dependency-free task still waiting for its own release
                        # time (VIRTUAL, no parents) has no completion estimate at all, so its descendants count as ready
                        overdue = []
                        unreleased = []
                        todo = [p for p in ti["parents"] if p not in fin]
                        seen_a = set()
                        while todo:               # incomplete ancestors, transitively
                            a = todo.pop()
                            if a in seen_a:
                                continue
                            seen_a.add(a)
                            if state.get(a) == "SCHEDULED":
                                overdue.append(a)
                            if state.get(a) == "VIRTUAL" and a in info and not info[a]["parents"]:
                                unreleased.append(a)
                            todo += [q for q in info.get(a, {}).get("parents", []) if q not in fin]
                        if not ok and overdue:
                            f36.append("VIRTUAL task %s offered at %s while its ancestor %s is SCHEDULED but not started" % (n, now, overdue[0]))
                        elif not ok and unreleased:
                            f38.append("VIRTUAL task %s offered at %s while its ancestor %s has not even been released" % (n, now, unreleased[0]))
                        elif not ok:
                            bad.append("VIRTUAL task %s offered at %s (no lookahead) before its predecessors completed" % (n, now))
            for t, stt in state.items():
                if stt == "RELEASED" and rel_time.get(t) is not None and rel_time[t] <= now and t not in names:
                    bad.append("released task %s (released at %s) is missing from the offer at %s" % (t, rel_time[t], now))
    return bad


def mon_c12(run, world, f40_out=None, f37c_out=None):
    """end-to-end consequence of deadline enforcement: with exact runtimes every task that completes under a planner that
    enforces deadlines does so by its deadline; a task that was hopeless when it was offered is never started"""
    bad = []
    f = world["flags"]
    if world.get("fuzz") or f.get("runtime_variance", 0) != 0:
        return bad
    pol = f["scheduler"]
    enforcing = (pol in ("ILP", "TetriSched_Gurobi", "TetriSched_CPLEX") and f.get("enforce_deadlines")
                 and not f.get("release_taskgraphs")) or pol == "Clockwork"
    if not enforcing:
        return bad
    # known finding F40: the TetriSched-CPLEX formulation has no precedence rows, so a task offered ahead of its release
    # (lookahead / release_taskgraphs) is planned before its parents end, waits for them, and may complete late
    f40 = pol == "TetriSched_CPLEX" and (f.get("scheduler_lookahead", 0) > 0 or f.get("release_taskgraphs"))
    # known finding F37 (consequence): with requests for SPECIFIC resource units the planners' by-name capacity accounting
    # differs from what a Worker can allocate, the plan is not executable at its chosen times, placements are retried and
    # tasks complete late
    f37c = pol in F37_PLANNERS and any(not k.endswith(":any") for p in world["workload"]["profiles"]
                                        for st in p["execution_strategies"] for k in st["resource_requirements"])
    for x in run["final"]:
        if x[1] == "COMPLETED" and x[3] is not None and x[5] is not None and x[3] > x[5]:
            msg = "task %s completed at %s, after its deadline %s, under %s with deadline enforcement" % (x[0], x[3], x[5], pol)
            if f40 and f40_out is not None:
                f40_out.append(msg)
            elif f37c and f37c_out is not None:
                f37c_out.append(msg)
            else:
                bad.append(msg)
    return bad


def unfit_on_empty(requests, units):
    """requests: [[name, id|'any', q]...]; units: [[name, id, q]...] of one worker.  A reason when the requests can never
    be allocated on the empty worker (a definite impossibility only), else None."""
    by_unit = {(n, i): q for (n, i, q) in units}
    by_name = {}
    for (n, i, q) in units:
        by_name[n] = by_name.get(n, 0) + q
    need = {}
    for (n, i, q) in requests:
        need[n] = need.get(n, 0) + q
        if i != "any" and q > 0 and by_unit.get((n, i), 0) < q:
            return "it requests %s of the unit %s:%s, the worker has %s of that unit" % (q, n, i, by_unit.get((n, i), 0))
    for n, q in need.items():
        if by_name.get(n, 0) < q:
            return "it requests %s x %s, the worker has %s" % (q, n, by_name.get(n, 0))
    return None


def mon_c10(run, world, f37_out=None):
    """the decisions every policy returned during whole simulations (C10's contract, implementation side)"""
    bad = []
    if world.get("fuzz"):
        return bad          # the harness's own adversarial policy is not one of the bundled policies
    pools = set()
    workers = {}
    pool_cap = {}
    info = graph_info(run)
    last_offer = None
    log = run["log"]
    st8 = {}
    plan = {}        # task -> (start, runtime, pool id, strategy index) of its current plan (SCHEDULED or RUNNING)
    # (greedy policies decide for `now` only and see the cluster as it is: a task whose placement event is still pending
    # or being retried is not on a worker yet — the plan-ahead clause is checked for the planners that pin earlier plans)
    capacity_clause = world["flags"]["scheduler"] in ("ILP", "TetriSched_Gurobi", "TetriSched_CPLEX")
    for e in log:
        if e[0] == "cluster":
            pools = {p[1] for p in e[1]}
            names = e[2] if len(e) > 2 else {}
            units = {w[0]: w[1] for p in e[1] for w in p[2]}
            workers = {wid: (wn, units.get(wn, [])) for wid, wn in names.items()}
            for p in e[1]:
                tot = {}
                for w in p[2]:
                    for (rn, _i, q) in w[1]:
                        tot[rn] = tot.get(rn, 0) + q
                pool_cap[p[1]] = tot
        elif e[0] == "graph":
            for t in e[1]["tasks"]:
                st8[t["name"]] = t["state"]
        elif e[0] == "task" and e[5] != "ERR":
            st8[e[2]] = e[5]
            if e[1] == "schedule" and e[6] and e[6][0] is not None and e[6][3] is not None:
                plan[e[2]] = (e[6][0], e[6][3], e[6][1], e[6][2])
            elif e[1] == "start" and e[2] in plan:
                plan[e[2]] = (e[3], max(e[6][0], 1), plan[e[2]][2], plan[e[2]][3])
            elif e[1] in ("unschedule", "cancel", "finish"):
                plan.pop(e[2], None)
        elif e[0] == "offer":
            last_offer = e
        elif e[0] == "decisions":
            now, decs = e[1], e[2]
            if capacity_clause:
                # all placements together with the tasks that are running or were scheduled earlier (and are not decided
                # again) never exceed the capacity of a POOL at any planned instant (a necessary condition of the
                # per-worker statement: a pool holds no more than its workers together)
                decided = {d[1] for d in decs if d[0] in ("PLACE_TASK", "CANCEL_TASK")}
                ivs = []
                for t, (s0, rt, pool, idx) in plan.items():
                    if t in decided or st8.get(t) not in ("RUNNING", "SCHEDULED") or idx is None or t not in info:
                        continue
                    if st8.get(t) == "SCHEDULED" and s0 <= now:
                        continue          # its placement is being dispatched / retried right now (see F36)
                    ivs.append((max(s0, now) if st8.get(t) == "SCHEDULED" else now, max(s0 + rt, now + 1), pool, t, info[t]["strategies"][idx][1], st8.get(t)))
                for d in decs:
                    if d[0] == "PLACE_TASK" and d[3] is not None and d[5] is not None and d[6] is not None and d[7] is not None and d[1] in info:
                        ivs.append((d[5], d[5] + max(d[7], 1), d[3], d[1], info[d[1]]["strategies"][d[6]][1], "placed now"))
                new_pts = sorted({iv[0] for iv in ivs if iv[5] == "placed now"})
                flagged = False
                for pt in new_pts:
                    for pool, cap in pool_cap.items():
                        use = {}
                        who = []
                        for (a, b, pl, t, req, kind) in ivs:
                            if pl == pool and a <= pt < b:
                                who.append("%s(%s)[%s,%s)" % (t, kind, a, b))
                                for (rn, _i, q) in req:
                                    use[rn] = use.get(rn, 0) + q
                        over = [(rn, q, cap.get(rn, 0)) for rn, q in use.items() if q > cap.get(rn, 0)]
                        if over and any("placed now" in x for x in who) and not flagged:
                            flagged = True
                            bad.append("decisions at %s plan %s x %s at t=%s on a pool whose workers hold %s in total: %s"
                                       % (now, over[0][1], over[0][0], pt, over[0][2], ", ".join(who)))
            if not e[4]:
                bad.append("schedule() at %s changed the occupancy of the live cluster" % now)
            if not e[5]:
                bad.append("schedule() at %s changed the state of a task" % now)
            seen = {}
            offered = {o[0]: o[1] for o in last_offer[6]} if last_offer is not None and last_offer[1] == now else None
            for d in decs:
                kind, t = d[0], d[1]
                if kind not in ("PLACE_TASK", "CANCEL_TASK"):
                    continue
                seen[t] = seen.get(t, 0) + 1
                if d[2] in ("RUNNING", "COMPLETED", "CANCELLED", "EVICTED"):
                    bad.append("decision at %s for task %s which is %s" % (now, t, d[2]))
                if kind == "PLACE_TASK" and d[3] is not None:
                    if d[3] not in pools:
                        bad.append("placement of %s names the unknown pool %s" % (t, d[3]))
                    if d[5] is None or d[5] < now:
                        bad.append("placement of %s at %s, before now=%s" % (t, d[5], now))
                    ti = info.get(t)
                    if ti and d[6] is None and d[7] is not None and world["flags"]["scheduler"] != "Clockwork":   # (batch strategies are derived objects)
                        bad.append("placement of %s reports a strategy that is not one of the task's" % t)
                    # a placement that names a worker: the chosen strategy must fit that worker when it is EMPTY
                    # (a unit the worker does not have can never be allocated there: the simulator retries for ever)
                    if ti and d[4] is not None and d[6] is not None and d[4] in workers:
                        why = unfit_on_empty(ti["strategies"][d[6]][1], workers[d[4]][1])
                        if why:
                            msg = ("placement of %s by %s names worker %s on which its chosen strategy can never be allocated: %s"
                                   % (t, world["flags"]["scheduler"], workers[d[4]][0], why))
                            if f37_out is not None and world["flags"]["scheduler"] in F37_PLANNERS and "unit" in why:
                                f37_out.append(msg)       # known finding F37 (signature: planner + request for a specific unit)
                            else:
                                bad.append(msg)
            for t, c in seen.items():
                if c > 1:
                    bad.append("%d decisions for task %s in one invocation at %s" % (c, t, now))
            if offered is not None:
                for t, stt in offered.items():
                    if stt in ("RELEASED", "VIRTUAL") and t not in seen and world["flags"]["scheduler"] in ("EDF", "FIFO", "LSF", "ILP", "TetriSched_Gurobi", "TetriSched_CPLEX"):
                        bad.append("offered task %s got no answer from %s at %s" % (t, world["flags"]["scheduler"], now))
    return bad


def mon_c11(run, world):
    """planners order children after parents: decisions returned during whole simulations"""
    bad = []
    # (the property names ILP, TetriSched-Gurobi and Z3; the CPLEX formulation has no precedence rows at all)
    if world.get("fuzz") or world["flags"]["scheduler"] not in ("ILP", "TetriSched_Gurobi"):
        return bad
    info = graph_info(run)
    state = {}
    started = {}
    planned = {}
    for e in run["log"]:
        if e[0] == "graph":
            for t in e[1]["tasks"]:
                state[t["name"]] = t["state"]
        elif e[0] == "task" and e[5] != "ERR":
            state[e[2]] = e[5]
            if e[1] == "start":
                started[e[2]] = (e[3], e[6][0])
            if e[1] == "schedule" and e[6] and e[6][0] is not None and e[6][3] is not None:
                planned[e[2]] = (e[6][0], e[6][3])
            if e[1] in ("unschedule", "cancel"):
                planned.pop(e[2], None)
        elif e[0] == "decisions":
            now = e[1]
            placed = {d[1]: (d[5], d[7]) for d in e[2] if d[0] == "PLACE_TASK" and d[3] is not None}
            decided = {d[1] for d in e[2] if d[0] == "PLACE_TASK"}
            for t, (pt, rt) in placed.items():
                ti = info.get(t)
                if not ti:
                    continue
                for p in ti["parents"]:
                    if ti["terminal"] and info.get(p, {}).get("prob", 1.0) == 0.0:
                        continue
                    if p in decided and p not in placed and not ti["terminal"]:
                        bad.append("%s placed at %s although its co-decided parent %s was left unplaced (now=%s)" % (t, pt, p, now))
                    if p in placed and placed[p][1] is not None and pt < placed[p][0] + placed[p][1]:
                        bad.append("%s placed at %s, before its parent %s placed at %s with runtime %s ends" % (t, pt, p, placed[p][0], placed[p][1]))
                    if p not in decided and state.get(p) == "SCHEDULED" and p in planned and pt < planned[p][0] + planned[p][1]:
                        bad.append("%s placed at %s, before its parent %s (scheduled earlier for %s with runtime %s, not "
                                   "re-decided) is expected to finish" % (t, pt, p, planned[p][0], planned[p][1]))
                    if p not in decided and state.get(p) == "RUNNING" and p in started:
                        s, d = started[p]
                        if pt < s + d:
                            bad.append("%s placed at %s, before its running parent %s finishes at %s" % (t, pt, p, s + d))
    return bad


def mon_c19(run, world):
    """instantiation seen end to end: the number of TaskGraphs each described job graph (each replica under
    --replication_factor) releases during a whole simulation is the number of invocations its description declares —
    never more; exactly that many for the policies that release everything up front, and for closed_loop as soon as
    every released invocation of the job has run to completion; the first `concurrency` closed-loop invocations are
    released at the start time"""
    bad = []
    if not world or not run["log"]:
        return bad
    rep = int(world["flags"].get("replication_factor", 1) or 1)
    graphs = {}
    for e in run["log"]:
        if e[0] == "graph":
            graphs[e[1]["graph"]] = e[1]
    final = {x[0]: x[1] for x in run["final"]}
    # every invocation of one described job graph is instantiated the same way: with a deterministic deadline variance the
    # slack (deadline - release) is the same for all of them, also for the invocations created while the run goes on
    for g in world["workload"]["graphs"]:
        dv = g.get("deadline_variance")
        if not dv or dv[0] != dv[1] or world["flags"].get("decompose_deadlines"):
            continue
        names = [g["name"]] if rep <= 1 else ["%s_%d" % (g["name"], i) for i in range(1, rep + 1)]
        for jn in names:
            slacks = {}
            for k, v in graphs.items():
                if k.rsplit("@", 1)[0] == jn and v["deadline"] is not None and v["release"] is not None and v["release"] >= 0:
                    slacks.setdefault(v["deadline"] - v["release"], []).append(k)
            if len(slacks) > 1:
                bad.append("invocations of job graph %s were given different deadline slacks %s (its description fixes the variance to %s)"
                           % (jn, {k: v[:2] for k, v in sorted(slacks.items())}, dv[0]))
    for g in world["workload"]["graphs"]:
        pol = g.get("release_policy")
        n = g.get("invocations")
        if pol not in ("fixed", "poisson", "gamma", "closed_loop") or n is None:
            continue
        names = [g["name"]] if rep <= 1 else ["%s_%d" % (g["name"], i) for i in range(1, rep + 1)]
        for jn in names:
            mine = {k: v for k, v in graphs.items() if k.rsplit("@", 1)[0] == jn}
            c = len(mine)
            if c > n:
                bad.append("job graph %s released %d TaskGraphs, its description declares %d invocations (%s)" % (jn, c, n, pol))
                continue
            if pol != "closed_loop":
                if c != n:
                    bad.append("job graph %s (%s) released %d TaskGraphs, its description declares %d invocations" % (jn, pol, c, n))
                continue
            first = min(n, g.get("concurrency", 1))
            start = g.get("start", 0)
            at_start = sum(1 for v in mine.values() if v["release"] == start)
            if c < first or at_start < first:
                bad.append("closed-loop job graph %s: %d TaskGraphs released at the start time %s, min(concurrency, invocations) = %d"
                           % (jn, at_start, start, first))
                continue
            done = run["status"] == "ended" and all(
                final.get(t["name"]) == "COMPLETED" for v in mine.values() for t in v["tasks"] if not t["children"])
            if done and c != n:
                bad.append("closed-loop job graph %s: every released invocation completed, yet only %d of the %d declared "
                           "invocations were released" % (jn, c, n))
    return bad


def mon_c16(run, world=None):
    """the simulator's own event queue during whole simulations: handled events come out in non-decreasing time order and,
    at equal times, in the documented type priority — nothing still pending precedes the event being handled (also after
    the simulator re-timed or removed pending events)"""
    bad = []
    last = None
    for e in run["log"]:
        if e[0] != "handle":
            continue
        k0 = ev_key(e[1], e[2], e[3])
        if last is not None and e[1] < last:
            bad.append("event %s(%s) with time %s handled after an event with time %s" % (e[2], e[3], e[1], last))
        last = e[1]
        for (pt, pty, ptask) in e[5]:
            kp = ev_key(pt, pty, ptask)
            if kp[:2] < k0[:2] or (kp[:2] == k0[:2] and ptask and e[3] and kp < k0):
                bad.append("event %s(%s)@%s came out of the queue while %s(%s)@%s, which precedes it, was pending"
                           % (e[2], e[3], e[1], pty, ptask, pt))
                break
    return bad
