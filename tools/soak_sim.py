#!/usr/bin/env python3
"""Soak of the S-sim family over many seeds (not a registered check): generated worlds -> real simulator -> all S-sim
monitors + both machines.  Prints every failure; exit 0 iff none.   tools/soak_sim.py <first seed> <n seeds> [worlds]"""
import importlib
import json
import os
import sys

ROOT = os.path.dirname(os.path.dirname(os.path.abspath(__file__)))
sys.path.insert(0, os.path.join(ROOT, "harness"))
sys.path.insert(0, os.path.join(ROOT, "harness", "props"))
import core  # noqa: E402
import simcommon  # noqa: E402
import simmon  # noqa: E402

c05 = importlib.import_module("c05")
c08 = importlib.import_module("c08")
first, n = int(sys.argv[1]), int(sys.argv[2])
nw = int(sys.argv[3]) if len(sys.argv) > 3 else 160
_c = core.Ctx("soak", "quick", 0)
_c.translate(["Task", "Event", "Time"])
with core.BuildLock():
    ok, log = core.make(["Model/Sim.vo", "Model/SimQ.vo", "Model/NextSched.vo"])
if not ok:
    print(log[-2000:])
    sys.exit(2)
total_bad = 0
for seed in range(first, first + n):
    ctx = core.Ctx("soak%d" % seed, "quick", seed)
    worlds = simcommon.gen_worlds(seed, nw)
    runs = simcommon.run_worlds(worlds)
    st = {}
    for r in runs:
        st[r["status"]] = st.get(r["status"], 0) + 1
    sink = []
    mons = {"c01": lambda r, w: simmon.mon_c01(r, w), "c02": lambda r, w: simmon.mon_c02(r),
            "c03": lambda r, w: simmon.mon_c03(r, w["flags"].get("runtime_variance", 0)), "c05": c05.mon_c05,
            "c06": lambda r, w: simmon.mon_c06(r, sink), "c08": c08.mon_c08_outside_f41,
            "c07": lambda r, w: simmon.mon_c07(r, w), "c10": lambda r, w: simmon.mon_c10(r, w, sink),
            "c11": simmon.mon_c11, "c12": lambda r, w: simmon.mon_c12(r, w, sink, sink), "c16": simmon.mon_c16,
            "c18": lambda r, w: simmon.mon_c18(r, w, sink, sink), "c19": simmon.mon_c19}
    bad = []
    for name, fn in mons.items():
        for i, (w, r) in enumerate(zip(worlds, runs)):
            if not r["log"]:
                continue
            b = fn(r, w)
            if b:
                bad.append((name, i, "FUZZ" if w.get("fuzz") else w["flags"]["scheduler"], b[:2]))
    abnormal = [(i, r["status"], (r.get("error") or "")[:160]) for i, r in enumerate(runs)
                if r["status"] not in ("ended", "solver-licence-limit", "harness-timeout")]
    m1, n1 = simcommon.machine_stream(ctx, worlds, runs)
    m2, n2 = simcommon.machine_q_stream(ctx, worlds, runs)
    print("seed %d: %s monitors_bad=%d abnormal=%d machine %d/%d disagreements, machine+queue %d/%d" %
          (seed, st, len(bad), len(abnormal), len(m1), n1, len(m2), n2))
    for x in bad[:5] + abnormal[:5]:
        print("   ", x)
    for (i, mv, exp) in (m1 + m2)[:4]:
        print("    machine world", i, json.dumps(mv)[:200])
    total_bad += len(bad) + len(abnormal) + len(m1) + len(m2)
    if bad or abnormal or m1 or m2:
        json.dump({"worlds": [worlds[x[1]] for x in bad[:3]] + [worlds[x[0]] for x in abnormal[:3]] + [worlds[x[0]] for x in (m1 + m2)[:3]]},
                  open(os.path.join(core.BUILD, "soak_fail_%d.json" % seed), "w"))
    sys.stdout.flush()
sys.exit(1 if total_bad else 0)
