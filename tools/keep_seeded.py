#!/usr/bin/env python3
"""Copies a confirmed seeded change (written by an independent agent) into /verif/seeded/<id>/ together with what the
lead ran to confirm it and what the checks reported.   tools/keep_seeded.py <seed dir> <result json of tools/run_seeded.py>"""
import json
import os
import shutil
import sys

ROOT = os.path.dirname(os.path.dirname(os.path.abspath(__file__)))
d, res = sys.argv[1], json.load(open(sys.argv[2]))
meta = json.load(open(os.path.join(d, "meta.json")))
sid = res["id"]
ok = res.get("demo_before") == 0 and res.get("demo_after") not in (0, None) and "passed" in (res.get("tests") or "") and "failed" not in (res.get("tests") or "")
if not ok:
    print("NOT confirmed:", {k: res.get(k) for k in ("demo_before", "demo_after", "tests")})
    sys.exit(1)
out = os.path.join(ROOT, "seeded", sid)
os.makedirs(out, exist_ok=True)
shutil.copy(os.path.join(d, "patch.diff"), out)
shutil.copy(os.path.join(d, "demo.py"), out)
meta["lead_confirmation"] = {
    "ran": "tools/run_seeded.py (scratch worktree of /repo HEAD): demo.py before the patch, git apply, demo.py after, "
           "`/venv/bin/python -m pytest -q -p no:cacheprovider -x` in the patched worktree, then the checks with VERIF_REPO "
           "pointing at the patched worktree",
    "demo_exit_before": res["demo_before"], "demo_exit_after": res["demo_after"], "tests_with_change": res["tests"],
    "checks": {k: {"exit": v["rc"], "violations": v["violations"][:2], "first_report": v["detail"][:1]} for k, v in res.get("checks", {}).items()},
}
json.dump(meta, open(os.path.join(out, "meta.json"), "w"), indent=1)
print("kept", sid, {k: v["rc"] for k, v in res.get("checks", {}).items()})
