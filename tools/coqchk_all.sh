#!/bin/bash
# Independent re-check of the compiled development with coqchk (kernel re-check of every .vo the property files depend on)
# and the list of axioms they rely on (-o).  Writes /verif/coqchk_report.txt.   tools/coqchk_all.sh [Props module names...]
cd "$(dirname "$0")/../coq" || exit 2
mods=("$@")
if [ ${#mods[@]} -eq 0 ]; then
  for f in Props/*.v; do m=$(basename "$f" .v); [ -f "Props/$m.vo" ] && mods+=("$m"); done
fi
out=../coqchk_report.txt
{
  echo "coqchk -o over the property files, $(coqchk --version 2>&1 | head -1)"
  echo "modules: ${mods[*]}"
  echo
} > $out
rc=0
for m in "${mods[@]}"; do
  echo "== Verif.Props.$m" >> $out
  timeout 3000 coqchk -silent -o -Q . Verif "Verif.Props.$m" > /tmp/coqchk_$m.log 2>&1
  r=$?
  [ $r -ne 0 ] && rc=1
  echo "exit status $r" >> $out
  # keep the summary section (context, axioms, ...)
  sed -n '/CONTEXT SUMMARY/,$p' /tmp/coqchk_$m.log >> $out
  [ $r -ne 0 ] && tail -20 /tmp/coqchk_$m.log >> $out
  rm -f /tmp/coqchk_$m.log
  echo >> $out
done
exit $rc
