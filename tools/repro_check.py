#!/usr/bin/env python3
"""Stand-alone aid for C09 (superseded by the S-repro stream of `./check C09`, harness/props/c09.py): runs `python main.py` twice per generated world in fresh
processes under different PYTHONHASHSEEDs and compares the CSV traces after masking the measured wall-clock field of
SCHEDULER_FINISHED rows.  Exit 0 if all traces agree.   tools/repro_check.py [n_worlds] [seed]"""
import os
import random
import subprocess
import sys
import tempfile

sys.path.insert(0, os.path.join(os.path.dirname(os.path.dirname(os.path.abspath(__file__))), "harness"))
import simgen  # noqa: E402
import yaml  # noqa: E402

REPO = os.environ.get("VERIF_REPO", "/repo")


def run(world, td, tag, hashseed):
    wl, wk, csvp = os.path.join(td, "w.yaml"), os.path.join(td, "k.yaml"), os.path.join(td, "out_%s.csv" % tag)
    yaml.safe_dump(world["workload"], open(wl, "w"))
    yaml.safe_dump(world["workers"], open(wk, "w"))
    argv = ["/venv/bin/python", os.path.join(REPO, "main.py"), "--execution_mode=yaml", "--workload_profile_path=" + wl,
            "--worker_profile_path=" + wk, "--log_level=info", "--log_dir=" + td, "--csv_file_name=out_%s.csv" % tag,
            "--log_file_name=log_%s.txt" % tag]
    for k, v in world["flags"].items():
        argv.append(("--%s%s" % ("" if v else "no", k)) if isinstance(v, bool) else "--%s=%s" % (k, v))
    env = dict(os.environ, PYTHONHASHSEED=str(hashseed), PYTHONPATH=REPO)
    p = subprocess.run(argv, cwd=td, env=env, capture_output=True, text=True, timeout=300)
    if p.returncode != 0:
        return None, p.stderr[-400:]
    rows = []
    for line in open(csvp):
        f = line.rstrip("\n").split(",")
        if f[0] == "input_flag":
            continue
        if len(f) > 1 and f[1] == "SCHEDULER_FINISHED":
            f[5] = "<wall>"
        rows.append(",".join(f))
    return rows, None


def main():
    n = int(sys.argv[1]) if len(sys.argv) > 1 else 6
    rng = random.Random(int(sys.argv[2]) if len(sys.argv) > 2 else 1)
    bad = 0
    for i in range(n):
        w = simgen.gen_world(rng)
        if simgen.signature(w):
            continue
        w["flags"]["runtime_variance"] = rng.choice([10, 50])
        with tempfile.TemporaryDirectory() as td:
            a, ea = run(w, td, "a", 1)
            b, eb = run(w, td, "b", 987654)
        if a is None or b is None:
            print("world %d: run failed: %s" % (i, ea or eb))
            bad += 1
        elif a != b:
            k = next((j for j, (x, y) in enumerate(zip(a, b)) if x != y), min(len(a), len(b)))
            print("world %d: traces differ at row %d:\n  %s\n  %s" % (i, k, a[k:k + 1], b[k:k + 1]))
            bad += 1
        else:
            print("world %d: %d rows identical" % (i, len(a)))
    return 1 if bad else 0


if __name__ == "__main__":
    sys.exit(main())
