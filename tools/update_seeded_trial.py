#!/usr/bin/env python3
"""Records a later trial of an already kept seeded change (tools/run_seeded.py result) in seeded/<id>/meta.json; the earlier
result is kept under "earlier_trials".   tools/update_seeded_trial.py <id> <result json> [note]"""
import json
import os
import sys

ROOT = os.path.dirname(os.path.dirname(os.path.abspath(__file__)))
sid, res = sys.argv[1], json.load(open(sys.argv[2]))
note = sys.argv[3] if len(sys.argv) > 3 else None
mp = os.path.join(ROOT, "seeded", sid, "meta.json")
meta = json.load(open(mp))
lc = meta.get("lead_confirmation", {})
old = lc.get("checks", {})
new = {k: {"exit": v["rc"], "violations": v["violations"][:2], "first_report": v["detail"][:1]} for k, v in res.get("checks", {}).items()}
if old:
    meta.setdefault("earlier_trials", []).append({k: {"exit": v.get("exit"), "violations": v.get("violations", [])[:1]} for k, v in old.items() if k in new})
merged = dict(old)
merged.update(new)
lc["checks"] = merged
if note:
    lc["note"] = note
meta["lead_confirmation"] = lc
json.dump(meta, open(mp, "w"), indent=1)
print(sid, {k: v["exit"] for k, v in merged.items()})
