#!/usr/bin/env python3
"""Rewrites the table 'which check catches which seeded change' at the end of DESIGN.md from seeded/*/meta.json."""
import json
import os

ROOT = os.path.dirname(os.path.dirname(os.path.abspath(__file__)))
MARK = "<!-- seeded-table -->"
rows = []
for d in sorted(os.listdir(os.path.join(ROOT, "seeded"))):
    mp = os.path.join(ROOT, "seeded", d, "meta.json")
    if not os.path.exists(mp):
        continue
    m = json.load(open(mp))
    lc = m.get("lead_confirmation", {})
    rep = []
    for c, v in lc.get("checks", {}).items():
        first = (v.get("first_report") or [{}])[0]
        how = first.get("stream") or ("broken obligation" if first.get("broken_obligation") else "")
        concrete = not any("no-failing-input-found" in x for x in v.get("violations", []))
        rep.append("%s: %s%s" % (c, "caught" if v.get("exit") == 1 else "MISSED", (" (%s%s)" % (how, ", concrete input" if concrete else ", no failing input")) if v.get("exit") == 1 else ""))
    summ = (m.get("summary") or "").replace("\n", " ").replace("|", "/")
    rows.append("| %s | %s | %s | %s |" % (d, m.get("property"), summ[:170], "; ".join(rep)))
table = ("\n" + MARK + "\n\n### Seeded changes (written by independent agents that saw only the property text)\n\n"
         "| id | property | change | what the checks reported |\n|---|---|---|---|\n" + "\n".join(rows) + "\n")
p = os.path.join(ROOT, "DESIGN.md")
s = open(p).read()
if MARK in s:
    s = s[:s.index("\n" + MARK)]
open(p, "w").write(s.rstrip("\n") + "\n" + table)
print("%d seeded changes in the table" % len(rows))
