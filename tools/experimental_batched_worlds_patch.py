# EXPERIMENT (not part of any check): applies the windowed-loader world family of DESIGN.md §9 (10) to harness/simgen.py and harness/impl/sim.py.
# Revert with `git checkout -- harness/simgen.py harness/impl/sim.py`.  See tools/experimental_batched_worlds_try.py.
import re
# 1. simgen: batched worlds
p='/verif/harness/simgen.py'
s=open(p).read()
old="def gen_clockwork_world(rng):"
new='''def gen_batched_world(rng):
    """TaskGraphs built directly and handed to the simulator in SEVERAL BATCHES by a windowed loader
    (--workload_update_interval): batch k arrives around k * gap, long after everything of the earlier batches has
    completed (idle cluster in between), under a bundled work-conserving policy; everything is feasible"""
    w = gen_direct_world(rng)
    w.pop("fuzz", None)
    w["direct"].pop("coarse_runtimes", None)
    for prof in w["workload"]["profiles"]:
        for st in prof["execution_strategies"]:
            if st["runtime"] >= 1000:
                st["runtime"] = rng.choice([5, 10, 50])
    base = w["direct"]["graphs"]
    gap = 2000
    graphs = []
    for k in range(rng.randint(2, 3)):
        for g in base:
            if k > 0 and rng.random() < 0.3:
                continue
            g2 = json.loads(json.dumps(g))
            g2["name"] = "%s_b%d" % (g["name"], k)
            for t in g2["tasks"]:
                t["deadline"] = 100000 + k * gap
                if "release" in t:
                    t["release"] += k * gap
            graphs.append(g2)
    w["direct"]["graphs"] = graphs
    w["direct"]["batched"] = True
    f = w["flags"]
    f.update({"scheduler_frequency": rng.choice([-1, -1, 50]), "scheduler_delay": 0, "loop_timeout": 10 ** 6,
              "scheduler_run_at_worker_free": False, "workload_update_interval": rng.choice([100, 250])})
    return w


def gen_clockwork_world(rng):'''
assert s.count(old)==1
s=s.replace(old,new)
if "\nimport json" not in s:
    s=s.replace("\nimport random","\nimport json\nimport random",1)
open(p,'w').write(s)

# 2. adapter: windowed loader
p='/verif/harness/impl/sim.py'
s=open(p).read()
old='''    rt = EventTime(FLAGS.scheduler_runtime, EventTime.Unit.US)
    if world.get("fuzz"):
        cls = make_fuzz_scheduler(world["fuzz"])'''
new='''    class WindowedLoader(BaseWorkloadLoader):
        """hands out the TaskGraphs window by window: each call returns a Workload with the graphs released up to
        current_time + window that were not handed out before (possibly empty), None once all were handed out"""
        def __init__(self):
            self._pending = sorted(graphs.values(), key=lambda tg: us(tg.release_time))
            self._window = EventTime(FLAGS.workload_update_interval, EventTime.Unit.US)

        def get_next_workload(self, current_time):
            if not self._pending:
                return None
            out = {}
            while self._pending and self._pending[0].release_time <= current_time + self._window:
                tg = self._pending.pop(0)
                out[tg.name] = tg
            return Workload.from_task_graphs(out, _flags=FLAGS)

    rt = EventTime(FLAGS.scheduler_runtime, EventTime.Unit.US)
    if world.get("fuzz"):
        cls = make_fuzz_scheduler(world["fuzz"])'''
assert s.count(old)==1
s=s.replace(old,new)
old="                          workload_loader=DirectLoader(),"
new="                          workload_loader=(WindowedLoader() if world[\"direct\"].get(\"batched\") else DirectLoader()),"
assert s.count(old)==1
s=s.replace(old,new)
open(p,'w').write(s)
print("patched")
