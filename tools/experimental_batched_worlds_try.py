import sys, json, random
sys.path.insert(0, '/verif/harness')
import core, simcommon, simgen
rng = random.Random("C05-batches/1")
worlds = [simgen.gen_batched_world(rng) for _ in range(12)]
runs = simcommon.run_worlds(worlds)
for i, (w, r) in enumerate(zip(worlds, runs)):
    names = {"%s@%s@0" % (t["name"], g["name"]) for g in w["direct"]["graphs"] for t in g["tasks"]}
    fin = {e[2] for e in r["log"] if e[0] == "task" and e[1] == "finish" and e[5] == "COMPLETED"}
    upd = sum(1 for e in r["log"] if e[0] == "handle" and e[2] == "UPDATE_WORKLOAD")
    print(i, r["status"], r["sim_time"], "tasks", len(names), "finished", len(fin), "updates", upd, w["flags"]["scheduler"], w["flags"]["scheduler_frequency"], (r.get("error") or "")[:150])
    if i == 0:
        print(sorted(names)[:3], sorted(fin)[:3])
