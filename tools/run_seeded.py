#!/usr/bin/env python3
"""Trial of one seeded change against the checks, in isolation from the registered build state.

  tools/run_seeded.py <dir with patch.diff, demo.py, meta.json> [Cxx ...]

Creates a scratch worktree of /repo, applies the patch, confirms the project's tests stay green and the demonstration
fails with the change (and passes without), then runs the named checks (default: the property in meta.json) with
VERIF_REPO / VERIF_COQ / VERIF_BUILD / VERIF_OUT pointing at scratch directories, and prints what they reported."""
import json
import os
import shutil
import subprocess
import sys

ROOT = os.path.dirname(os.path.dirname(os.path.abspath(__file__)))


def sh(cmd, **kw):
    return subprocess.run(cmd, shell=isinstance(cmd, str), capture_output=True, text=True, **kw)


def main():
    d = os.path.abspath(sys.argv[1])
    meta = json.load(open(os.path.join(d, "meta.json")))
    checks = sys.argv[2:] or [meta["property"]]
    tag = os.path.basename(os.path.dirname(d)) + "_" + os.path.basename(d) if os.path.basename(d).startswith("m") else os.path.basename(d)
    scratch = "/tmp/lead/seeded_%s" % tag
    shutil.rmtree(scratch, ignore_errors=True)
    os.makedirs(scratch)
    repo = os.path.join(scratch, "repo")
    sh(["git", "-C", "/repo", "worktree", "prune"])
    r = sh(["git", "-C", "/repo", "worktree", "add", "--detach", repo, "HEAD"])
    if r.returncode:
        print("worktree failed", r.stderr)
        return 2
    out = {"id": tag, "property": meta["property"]}
    try:
        demo = os.path.join(d, "demo.py")
        r0 = sh(["/venv/bin/python", demo, repo], cwd=repo, timeout=900)
        out["demo_before"] = r0.returncode
        r = sh(["git", "-C", repo, "apply", os.path.join(d, "patch.diff")])
        if r.returncode:
            print("patch does not apply:", r.stderr)
            out["patch_applies"] = False
            print(json.dumps(out))
            return 2
        r1 = sh(["/venv/bin/python", demo, repo], cwd=repo, timeout=900)
        out["demo_after"] = r1.returncode
        out["demo_after_tail"] = (r1.stdout + r1.stderr)[-300:]
        t = sh("/venv/bin/python -m pytest -q -p no:cacheprovider -x 2>&1 | tail -1", cwd=repo, timeout=1200)
        out["tests"] = t.stdout.strip()
        if "--no-checks" not in sys.argv:
            coq = os.path.join(scratch, "coq")
            sh(["rsync", "-a", os.path.join(ROOT, "coq") + "/", coq + "/"])
            env = dict(os.environ, VERIF_REPO=repo, VERIF_COQ=coq, VERIF_BUILD=os.path.join(scratch, "build"),
                       VERIF_OUT=os.path.join(scratch, "out"))
            out["checks"] = {}
            for c in checks:
                if c.startswith("-"):
                    continue
                rc = sh([os.path.join(ROOT, "check"), c, "--tier", "quick"], env=env, timeout=3600)
                lines = [l for l in rc.stdout.splitlines() if l.startswith("VIOLATION") or l.startswith("KNOWN-FINDING")]
                detail = []
                for l in lines:
                    if l.startswith("VIOLATION"):
                        p = l.split("replay=")[1].split()[0]
                        try:
                            rp = json.load(open(p))
                            detail.append({k: (str(v)[:300]) for k, v in rp.items() if k in ("stream", "what", "failures", "broken_obligation", "error")})
                        except Exception:
                            pass
                out["checks"][c] = {"rc": rc.returncode, "violations": [l for l in lines if l.startswith("VIOLATION")][:4],
                                    "detail": detail[:3], "stderr_tail": rc.stderr[-300:] if rc.returncode not in (0, 1) else ""}
    finally:
        sh(["git", "-C", "/repo", "worktree", "remove", "--force", repo])
        shutil.rmtree(scratch, ignore_errors=True)
    print(json.dumps(out, indent=1))
    return 0


if __name__ == "__main__":
    sys.exit(main())
