#!/usr/bin/env python3
"""Curating aid (never run by a check): lists the KNOWN-FINDING ids printed by check logs that have no entry in
known_findings.json, and the `known` entries that no check printed.   tools/sync_known.py <log files...> [--add]"""
import json
import os
import re
import sys

ROOT = os.path.dirname(os.path.dirname(os.path.abspath(__file__)))
kf = json.load(open(os.path.join(ROOT, "known_findings.json")))
have = {(k["property"], k["id"]): k for k in kf}
seen = {}
for f in sys.argv[1:]:
    if f.startswith("--"):
        continue
    for line in open(f, errors="replace"):
        m = re.match(r"KNOWN-FINDING: property=(\S+) (\S+) (.*)", line)
        if m:
            seen[(m.group(1), m.group(2))] = m.group(3).strip()
missing = [k for k in seen if k not in have or have[k]["status"] != "known"]
silent = [k for k, v in have.items() if v["status"] == "known" and k not in seen]
print("printed but not registered as known:", missing)
print("registered as known but not printed by these logs:", silent)
if "--add" in sys.argv:
    for k in missing:
        kf.append({"status": "known", "property": k[0], "id": k[1], "signature": "see the check's replay of its witness",
                   "witness": "corpus/%s/" % k[0], "refuted_lemma": "", "what_fails": seen[k]})
    json.dump(kf, open(os.path.join(ROOT, "known_findings.json"), "w"), indent=1)
    print("added", len(missing))
