#!/usr/bin/env python3
"""Writes /verif/MANIFEST.json from the table below (kept here so that the manifest is always
well-formed and the not_applicable list is always the complement of the claimed checks)."""
import json
import os

ROOT = os.path.dirname(os.path.dirname(os.path.abspath(__file__)))
BASE = ("cd /repo && /venv/bin/python -m pytest -ra -q -p no:cacheprovider --timeout=900 "
        "--continue-on-collection-errors")

CLAIMS = {
    "C16": {
        "category": "proof",
        "text": "17 theorems (Props/C16.v) proved for all time values and all queue histories about definitions "
                "REGENERATED from utils.py / simulator.py on every run (EventTime operators, EventType values, "
                "Event.__lt__); the abstract priority queue is tied to the real EventQueue by differential histories, "
                "and a Gallina monitor (pop_minimal, proved equivalent to the theorem's conclusion) is applied to the "
                "implementation's own pop log to produce failing inputs. Whole-simulation part: the order in which the "
                "simulator's OWN queue hands out events in every generated simulation (re-timed placements without or with "
                "reheapify, removed events, per-microsecond retries) is judged by the documented key on the "
                "implementation's log; the corresponding theorems about the machine with the queue are C03's "
                "(C03_popped_is_minimal_at_clock, C03_handled_is_popped). S-time operands of add/sub/associativity cover the "
                "whole quantified range (each operand below 2^53 us, exact results beyond 2^53).",
        "design_ref": "DESIGN.md §5 C16, §4.1",
        "note": "Coq kernel; translator fragments Time+Event; float exactness below 2^53 and CPython heapq/total_ordering "
                "are modelled, not verified (checked by S-time / S-queue streams).",
        "technique": "Coq proof over translated definitions + differential correspondence",
    },
}

# further claims live in tools/claims/Cxx.json (same keys), one file per property
_cd = os.path.join(ROOT, "tools", "claims")
if os.path.isdir(_cd):
    for _f in sorted(os.listdir(_cd)):
        if _f.endswith(".json"):
            CLAIMS[_f[:-5]] = json.load(open(os.path.join(_cd, _f)))

PENDING_REASON = "check not built yet in this round (planned: see DESIGN.md §5); nothing is claimed for it"


def main():
    props = [json.loads(l)["id"] for l in open(os.path.join(ROOT, "properties.jsonl"))]
    checks = []
    for pid in props:
        if pid not in CLAIMS:
            continue
        c = CLAIMS[pid]
        checks.append({
            "property_id": pid,
            "quick_cmd": "./check %s --tier quick" % pid,
            "thorough_cmd": "./check %s --tier thorough" % pid,
            "evidence_file": "/verif/evidence/%s.json" % pid,
            "replay_cmd_template": "./check %s --replay {path}" % pid,
            "engine": "coq-model",
            "level_claimed": {"category": c["category"], "text": c["text"], "design_ref": c["design_ref"]},
            "level_note": c["note"],
            "technique": c["technique"],
        })
    na = [{"property_id": p, "reason": CLAIMS.get(p, {}).get("na_reason", PENDING_REASON)}
          for p in props if p not in CLAIMS]
    na_over = json.load(open(os.path.join(ROOT, "tools", "not_applicable.json"))) if os.path.exists(
        os.path.join(ROOT, "tools", "not_applicable.json")) else {}
    for e in na:
        if e["property_id"] in na_over:
            e["reason"] = na_over[e["property_id"]]
    m = {
        "version": 1,
        "setup_cmd": "./check --setup",
        "hooks": {
            "guard": "ERDOS_SIM_VERIF",
            "enable": "no source hooks: the harness observes /repo through class-level wrappers and logging handlers "
                      "installed in its own process (ERDOS_SIM_VERIF=1 is exported for completeness)",
            "baseline_off_cmd": BASE,
            "source_commits": [],
            "add_only": True,
        },
        "engines": [{"name": "coq-model", "path": "/verif/coq", "serves_properties": sorted(CLAIMS),
                     "kind_free_text": "Coq 8.16 development: executable Gallina model + theorems; Gen/ regenerated from "
                                       "/repo by translator/py2v.py on every run; model evaluated inside Coq on cases "
                                       "produced by running /repo's real classes"}],
        "checks": checks,
        "notes": "See DESIGN.md. Known findings: known_findings.json.",
        "not_applicable": na,
    }
    with open(os.path.join(ROOT, "MANIFEST.json"), "w") as f:
        json.dump(m, f, indent=1)
    print("MANIFEST.json: %d checks, %d not claimed" % (len(checks), len(na)))


if __name__ == "__main__":
    main()
